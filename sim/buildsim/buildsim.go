// Package buildsim decides the schedule / enumeration-order / read-fault clauses
// of C01 and all of C02: the image and every derived output must be the same
// whatever order concurrent compile tasks obtain file contents in, however
// thread.Parallelize dispatches jobs, in whatever order buckets enumerate files
// and in whatever order modules, paths and rules are listed; and a failing read
// must fail the build, never silently change the image.
package buildsim

import (
	"bytes"
	"context"
	"errors"
	"fmt"
	"io"
	"io/fs"
	"os"
	"sort"
	"strings"

	"github.com/bufbuild/buf/private/bufpkg/bufanalysis"
	"github.com/bufbuild/buf/private/bufpkg/bufimage"
	"github.com/bufbuild/buf/private/bufpkg/bufmodule"
	"github.com/bufbuild/buf/private/bufpkg/bufparse"
	"github.com/bufbuild/buf/private/gen/data/datawkt"
	"github.com/bufbuild/buf/private/pkg/protoencoding"
	"github.com/bufbuild/buf/private/pkg/slogext"
	"github.com/bufbuild/buf/private/pkg/storage"
	"github.com/bufbuild/buf/private/pkg/storage/storagemem"
	"github.com/bufbuild/buf/private/pkg/thread"
	"github.com/bufbuild/buf/private/pkg/verifhook"
	"github.com/bufbuild/protocompile"
	"github.com/bufbuild/protocompile/protoutil"
	"github.com/bufbuild/protocompile/reporter"
	"github.com/bufbuild/verif/engine"
	"github.com/bufbuild/verif/sched"
	"github.com/bufbuild/verif/simfs"
	"github.com/bufbuild/verif/tape"
	"github.com/bufbuild/verif/wsgen"
	"google.golang.org/protobuf/proto"
	"google.golang.org/protobuf/types/descriptorpb"
)

type bsim struct {
	tp   *tape.Tape
	s    *sched.Sim
	env  *engine.Env
	ws   *wsgen.Workspace
	prop string
	// perturbations of the current execution
	permuteWalk  bool
	permuteMods  bool
	permuteLists bool
	lintUse      []string
	extPrefix    []string // per module: what external paths are prefixed with
	refErrors    []refError
	filterTypes  []string
	// cliRoot: the workspace written to disk for runs that also go through the command line;
	// cliSite: the image being checked came from there
	cliRoot string
	cliSite bool
	// cliModDir[i]: directory of module i below the workspace root; cliInput: what is given to the
	// command (the directory, or an archive with #subdir); cliFlagRoot: what --path values start with
	cliModDir    []string
	cliInputs    [2]string
	cliFlagRoots [2]string
	// cliVariant: which of the two copies of the workspace on disk the next command uses
	cliVariant int
	// cliCopyToMemory: the commands run with BUF_BETA_COPY_FILES_TO_MEMORY set
	cliCopyToMemory bool
	// cliPlain: the next on-disk workspace is a plain directory tree (no links, second names or archives)
	cliPlain bool
	// cliRooted[i]: module i is a v1beta1 module whose files live below two roots
	cliRooted []bool
	// cliLastOut: the image file the last cliBuild wrote
	cliLastOut string
	// withFormatDiff: this run also produces the `buf format -d` output
	withFormatDiff bool
	// withFormatBroken: this run also formats a tree with one unparsable file and compares the failure text
	withFormatBroken bool
	faultKind        string // which kind of operation may fail in the current execution ("any": all)
	shortReads       bool   // the current execution's readers may serve short reads
	// excludeSourceInfo: the current pipeline execution builds without source info (prelude only)
	excludeSourceInfo bool
	lintExcept        []string
	permutePaths      bool
	faults            bool
	faultRate         int
	faultBudget       int
	cancelAt          int
	arrival           []string
	against           map[string]string
	pins              *remotePins
	hubLeaves         int // > 0: the public-hub output is produced, with that many leaf files
	counters          map[string]int
}

// Each check reports only what its own property states. An image that is a correct compilation
// but differs between two executions (say, another valid file order) breaks C02 and not C01; a
// wrong image that is wrong in the same way on every execution breaks C01 and not C02.
var c02Oracles = map[string]bool{"output-identical": true, "schedule-independence": true, "harness-reference": true, "fault-transparency": true}
var c02OnlyOracles = map[string]bool{"output-identical": true, "fault-transparency": true}

func (m *bsim) violate(oracle, site, format string, args ...any) {
	if m.prop == "C02" && !c02Oracles[oracle] {
		m.counters["other-property:"+oracle]++
		return
	}
	if m.prop == "C01" && c02OnlyOracles[oracle] {
		m.counters["other-property:"+oracle]++
		return
	}
	m.s.Violate(oracle, m.prop+"|"+oracle+"|"+site, format, args...)
}

func wktContent(path string) string {
	data, err := storage.ReadPath(context.Background(), datawkt.ReadBucket, path)
	if err != nil {
		panic(err)
	}
	return string(data)
}

// result of one execution of the pipeline
type result struct {
	err     error
	image   bufimage.Image
	outputs map[string]string
}

type readPolicy struct {
	m *bsim
}

func (p *readPolicy) Decide(s *sched.Sim, op sched.Op) sched.Decision {
	m := p.m
	if op.Kind == "get" {
		m.arrival = append(m.arrival, op.Path)
	}
	if (m.faults || m.shortReads) && op.Kind == "read" && s.Tape.Draw("shortread?", 4) == 3 {
		// not a failure: a reader may hand out fewer bytes than asked for; the build goes on
		return sched.Decision{Fault: "short-read", Arg: s.Tape.Draw("shortreadn", 4096)}
	}
	if !m.faults || m.faultBudget == 0 {
		return sched.Decision{}
	}
	var kinds []string
	switch op.Kind {
	case "get":
		kinds = []string{"get-err"}
	case "stat":
		kinds = []string{"stat-err"}
	case "walk":
		kinds = []string{"walk-err"}
	case "read":
		kinds = []string{"read-err"}
	}
	if len(kinds) == 0 {
		return sched.Decision{}
	}
	// one kind of operation is eligible per execution: the many Stat probes that come first would
	// otherwise use up the fault budget before a file is opened or read
	if m.faultKind != "any" && m.faultKind != op.Kind {
		return sched.Decision{}
	}
	// an operation on a workspace-supplied well-known type is a preferred target: a failing read
	// there must fail the build, never be answered from the built-in copy
	for p := range m.ws.SuppliedWKT {
		if strings.HasSuffix(op.Path, ":"+p) && s.Tape.Draw("wktfault?", 2) == 1 {
			return m.inject(s, kinds[0])
		}
	}
	v := s.Tape.Draw("fault?", m.faultRate)
	if v == 0 || v > len(kinds) {
		return sched.Decision{}
	}
	return m.inject(s, kinds[v-1])
}

// inject returns a fault decision. Once a read has failed the compiler aborts its other tasks
// through a context; who notices first is a race inside the code under test, so from here on
// this execution is left to the runtime: no further faults, no draws, not hashed. (Its result
// is still checked.)
func (m *bsim) inject(s *sched.Sim, kind string) sched.Decision {
	m.faultBudget = 0
	s.FIFO, s.Unhashed = true, true
	return sched.Decision{Fault: kind}
}

// buildModuleSet constructs the module set over instrumented buckets.
func (m *bsim) buildModuleSet(ctx context.Context, files map[string]string) (bufmodule.ModuleSet, error) {
	builder := bufmodule.NewModuleSetBuilder(ctx, slogext.NopLogger, bufmodule.NopModuleDataProvider, bufmodule.NopCommitProvider)
	order := make([]int, len(m.ws.Modules))
	for i := range order {
		order[i] = i
	}
	if m.permuteMods {
		order = m.tp.Perm("modorder", len(order))
	}
	// files that exist only in this version of the workspace go to the first targeted module
	// that is built without path restrictions
	extraOwner := -1
	for i, mod := range m.ws.Modules {
		if mod.Targeted && mod.ProtoFileTarget == "" && len(mod.TargetPaths) == 0 && len(mod.ExcludePaths) == 0 {
			extraOwner = i
			break
		}
	}
	for _, i := range order {
		mod := m.ws.Modules[i]
		mem := storagemem.NewReadWriteBucket()
		if i == extraOwner {
			for _, p := range simfs.SortedKeys(files) {
				if strings.HasPrefix(p, wsgen.RemovedPrefix) {
					if err := m.putWithExternalPath(mem, i, p, []byte(files[p])); err != nil {
						panic(err)
					}
					m.s.Probe("previous-version-has-deleted-files")
				}
			}
		}
		for p, c := range mod.ModuleFiles() {
			content := c
			if files != nil {
				if alt, ok := files[p]; ok {
					content = []byte(alt)
				}
			}
			if err := m.putWithExternalPath(mem, i, p, content); err != nil {
				panic(err)
			}
		}
		bucket := &simfs.Bucket{S: m.s, U: mem, Name: fmt.Sprintf("m%d", i), PermuteWalk: m.permuteWalk, YieldReads: m.faults || m.shortReads,
			// protocompile probes for a custom descriptor.proto inside a sync.Once that every compile task waits on
			NoYield: func(p string) bool { return p == "google/protobuf/descriptor.proto" }}
		var opts []bufmodule.LocalModuleOption
		if mod.Name != "" {
			fn, err := bufparse.ParseFullName(mod.Name)
			if err != nil {
				panic(err)
			}
			opts = append(opts, bufmodule.LocalModuleWithFullNameAndCommitID(fn, mod.CommitID))
		}
		if mod.ProtoFileTarget != "" {
			opts = append(opts, bufmodule.LocalModuleWithProtoFileTargetPath(mod.ProtoFileTarget, mod.IncludePackageFiles))
		} else if len(mod.TargetPaths) > 0 || len(mod.ExcludePaths) > 0 {
			tps := m.permuted(fmt.Sprintf("tpaths%d", i), mod.TargetPaths)
			eps := m.permuted(fmt.Sprintf("epaths%d", i), mod.ExcludePaths)
			opts = append(opts, bufmodule.LocalModuleWithTargetPaths(tps, eps))
		}
		builder.AddLocalModule(bucket, fmt.Sprintf("bucket-%d", i), mod.Targeted, opts...)
	}
	return builder.Build()
}

// externalPath is the path the user would have given for a file of module i: the module's
// directory as named on the command line (tape-chosen spelling), then the path.
func (m *bsim) externalPath(module int, path string) string {
	if module >= len(m.extPrefix) || m.extPrefix[module] == "" {
		return path
	}
	return m.extPrefix[module] + "/" + path
}

func (m *bsim) putWithExternalPath(bucket storage.WriteBucket, module int, path string, content []byte) error {
	woc, err := bucket.Put(context.Background(), path)
	if err != nil {
		return err
	}
	if ext := m.externalPath(module, path); ext != path {
		if err := woc.SetExternalPath(ext); err != nil {
			return err
		}
	}
	if _, err := woc.Write(content); err != nil {
		return err
	}
	return woc.Close()
}

// pipeline is what a buf invocation does with a workspace: build, then derive outputs.
func (m *bsim) pipeline(ctx context.Context, withOutputs bool) *result {
	res := &result{outputs: map[string]string{}}
	moduleSet, err := m.buildModuleSet(ctx, nil)
	if err != nil {
		res.err = err
		return res
	}
	var buildOpts []bufimage.BuildImageOption
	if m.excludeSourceInfo {
		buildOpts = append(buildOpts, bufimage.WithExcludeSourceCodeInfo())
	}
	image, err := bufimage.BuildImage(ctx, slogext.NopLogger, bufmodule.ModuleSetToModuleReadBucketWithOnlyProtoFiles(moduleSet), buildOpts...)
	if err != nil {
		res.err = err
		return res
	}
	res.image = image
	protoImage, err := bufimage.ImageToProtoImage(image)
	if err != nil {
		res.err = err
		return res
	}
	data, err := protoencoding.NewWireMarshaler().Marshal(protoImage)
	if err != nil {
		res.err = err
		return res
	}
	res.outputs["image"] = string(data)
	if !withOutputs {
		return res
	}
	if err := m.moreOutputs(ctx, moduleSet, image, res); err != nil {
		res.err = err
	}
	return res
}

// run executes the pipeline once as a simulated process under the current perturbation.
func (m *bsim) run(withOutputs bool) *result {
	m.s.ResetEpoch()
	m.arrival = nil
	var res *result
	proc := m.s.Proc(fmt.Sprintf("b%d", m.counters["executions"]))
	m.counters["executions"]++
	m.s.Spawn(proc, func(ctx context.Context) {
		if m.cancelAt > 0 {
			var cancel context.CancelFunc
			ctx, cancel = context.WithCancel(ctx)
			defer cancel()
			m.s.Event("cancel armed at get #%d", m.cancelAt)
			n := 0
			orig := m.s.BeforeRelease
			m.s.BeforeRelease = func(op sched.Op) {
				if op.Kind == "get" {
					n++
					if n == m.cancelAt {
						cancel()
						m.s.Fired("cancel")
					}
				}
			}
			defer func() { m.s.BeforeRelease = orig }()
		}
		res = m.pipeline(ctx, withOutputs)
	})
	m.s.Run()
	if m.s.Deadlocked {
		m.s.Violate("harness-deadlock", "harness|deadlock", "scheduler deadlock: %v", m.s.ParkedKeys())
	}
	if res == nil {
		res = &result{err: errors.New("pipeline did not finish"), outputs: map[string]string{}}
	}
	return res
}

// ---- reference compile: protocompile directly, single-threaded, plain map resolver ----

type refFile struct {
	fdp *descriptorpb.FileDescriptorProto
}

func (m *bsim) reference() (map[string]*descriptorpb.FileDescriptorProto, error) {
	targets := m.ws.Targets()
	accessor := func(path string) (io.ReadCloser, error) {
		if f, ok := m.ws.Files[path]; ok {
			return io.NopCloser(strings.NewReader(f.Content)), nil
		}
		if datawkt.Exists(path) {
			return io.NopCloser(strings.NewReader(wktContent(path))), nil
		}
		return nil, fs.ErrNotExist
	}
	compiler := protocompile.Compiler{
		MaxParallelism: 1,
		SourceInfoMode: protocompile.SourceInfoExtraOptionLocations,
		Resolver:       &protocompile.SourceResolver{Accessor: accessor},
		Reporter:       reporter.NewReporter(func(e reporter.ErrorWithPos) error { return e }, func(reporter.ErrorWithPos) {}),
	}
	files, err := compiler.Compile(context.Background(), targets...)
	if err != nil {
		return nil, err
	}
	out := map[string]*descriptorpb.FileDescriptorProto{}
	for _, f := range files {
		collect(f, out)
	}
	return out, nil
}

// refError is one diagnostic of the reference compiler.
type refError struct {
	path      string
	line, col int
	msg       string
}

// referenceErrors compiles the targets with protocompile directly (one worker, no buf code) and
// returns every error it reports, in order.
func (m *bsim) referenceErrors() []refError {
	accessor := func(path string) (io.ReadCloser, error) {
		if f, ok := m.ws.Files[path]; ok {
			return io.NopCloser(strings.NewReader(f.Content)), nil
		}
		if datawkt.Exists(path) {
			return io.NopCloser(strings.NewReader(wktContent(path))), nil
		}
		return nil, fs.ErrNotExist
	}
	var out []refError
	add := func(e reporter.ErrorWithPos) {
		pos := e.GetPosition()
		out = append(out, refError{path: pos.Filename, line: pos.Line, col: pos.Col, msg: e.Unwrap().Error()})
	}
	compiler := protocompile.Compiler{
		MaxParallelism: 1,
		SourceInfoMode: protocompile.SourceInfoExtraOptionLocations,
		Resolver:       &protocompile.SourceResolver{Accessor: accessor},
		Reporter:       reporter.NewReporter(func(e reporter.ErrorWithPos) error { add(e); return nil }, func(reporter.ErrorWithPos) {}),
	}
	_, err := compiler.Compile(context.Background(), m.ws.Targets()...)
	if err != nil && len(out) == 0 {
		if e, ok := err.(reporter.ErrorWithPos); ok {
			add(e)
		}
	}
	return out
}

func collect(fd protoFile, out map[string]*descriptorpb.FileDescriptorProto) {
	if _, ok := out[fd.Path()]; ok {
		return
	}
	out[fd.Path()] = protoutil.ProtoFromFileDescriptor(fd)
	imports := fd.Imports()
	for i := 0; i < imports.Len(); i++ {
		collect(imports.Get(i).FileDescriptor, out)
	}
}

// ---- C01 oracles on an image ----

func (m *bsim) checkImage(image bufimage.Image, ref map[string]*descriptorpb.FileDescriptorProto, site string) {
	closure := m.ws.Closure()
	seen := map[string]int{}
	pos := map[string]int{}
	for i, f := range image.Files() {
		seen[f.Path()]++
		pos[f.Path()] = i
	}
	for _, p := range simfs.SortedKeys(seen) {
		if seen[p] > 1 {
			m.violate("each-path-once", site, "%s appears %d times in the image", p, seen[p])
		}
		if !closure[p] {
			m.violate("exact-closure", site, "%s is in the image but is neither targeted nor transitively imported by a target", p)
		}
	}
	for _, p := range simfs.SortedKeys(closure) {
		if seen[p] == 0 {
			m.violate("exact-closure", site, "%s is targeted or transitively imported but missing from the image", p)
		}
	}
	for _, f := range image.Files() {
		p := f.Path()
		wf := m.ws.Files[p]
		wantTarget := wf != nil && m.ws.IsTarget(wf)
		if f.IsImport() == wantTarget {
			m.violate("import-flag", site, "%s: IsImport=%v but the file is targeted=%v", p, f.IsImport(), wantTarget)
		}
		// every file after all the files it imports
		for _, dep := range f.FileDescriptorProto().GetDependency() {
			if dp, ok := pos[dep]; !ok || dp > pos[p] {
				m.violate("dependency-order", site, "%s comes before its import %s", p, dep)
			}
		}
		if r := ref[p]; r != nil {
			if !proto.Equal(r, f.FileDescriptorProto()) {
				m.violate("descriptor-equals-compiler-output", site, "descriptor of %s differs from what the compiler produces for its source text", p)
			}
		} else if closure[p] {
			m.violate("descriptor-equals-compiler-output", site, "no reference descriptor for %s", p)
		}
		if wf != nil {
			// markers known by construction
			// the compiler reports unused imports for the files it was asked to compile (the targets) only
			var wantUnused []int32
			for i, imp := range wf.Imports {
				if wantTarget && !imp.Used && !imp.Public {
					wantUnused = append(wantUnused, int32(i))
				}
			}
			got := append([]int32(nil), f.UnusedDependencyIndexes()...)
			sort.Slice(got, func(i, j int) bool { return got[i] < got[j] })
			if fmt.Sprint(got) != fmt.Sprint(wantUnused) && !m.ws.SuppliedWKT[p] {
				m.violate("unused-import-marker", site, "%s: unused dependency indexes %v, by construction %v; source:\n%s", p, got, wantUnused, wf.Content)
			}
			if f.IsSyntaxUnspecified() != wf.SyntaxUnspecified {
				m.violate("syntax-unspecified-marker", site, "%s: IsSyntaxUnspecified=%v, by construction %v", p, f.IsSyntaxUnspecified(), wf.SyntaxUnspecified)
			}
			mod := m.ws.Modules[wf.Module]
			gotName := ""
			if f.FullName() != nil {
				gotName = f.FullName().String()
			}
			if gotName != mod.Name {
				m.violate("module-metadata", site, "%s: module name %q, expected %q", p, gotName, mod.Name)
			}
			// (a module of a workspace on disk has a name but no commit)
			if mod.Name != "" && f.CommitID() != mod.CommitID && !m.cliSite {
				m.violate("module-metadata", site, "%s: commit id differs from its module's", p)
			}
		} else {
			// a well-known type resolved to the built-in copy: no owning module
			if f.FullName() != nil {
				m.violate("wkt-resolution", site, "%s is not supplied by the workspace but has module %s", p, f.FullName().String())
			}
		}
	}
}

// Run is one simulated case.
func Run(tp *tape.Tape, env *engine.Env) *engine.Outcome {
	s := sched.New(tp)
	s.KeepTrace = env.KeepTrace
	s.Progress = env.Progress
	s.MaxSteps = 20000
	hooks := simfs.NewHooks(s)
	verifhook.SetHandler(hooks)
	defer verifhook.SetHandler(nil)
	m := &bsim{tp: tp, s: s, env: env, prop: env.Property, counters: map[string]int{}}
	if m.prop == "" {
		m.prop = "C01"
	}
	s.Policy = &readPolicy{m: m}
	mode := "schedule"
	if m.prop == "C01" {
		mode = tape.Pick(tp, "mode", []string{"schedule", "fault", "schedule", "planted", "fault"})
	} else if tp.Draw("c02fault", 5) == 4 {
		// "the same inputs always yield a byte-identical image, run after run" - also a run in which one
		// read failed once: it fails, or it writes the same bytes (fault-transparency)
		mode = "fault"
	}
	maxFiles := 10
	if m.prop == "C02" && tp.Draw("bigws", 3) == 2 {
		// check execution splits files into chunks per worker: needs many files to matter
		maxFiles = 40
	}
	unusedHeavy := m.prop == "C01" && mode == "schedule" && tp.Draw("unusedheavy", 3) == 2
	if os.Getenv("VERIF_FORCE_HEAVY") != "" {
		mode, unusedHeavy = "schedule", true
	}
	m.ws = wsgen.New(tp, wsgen.Options{MaxModules: 3, MaxFiles: maxFiles, Targeting: true, PlantError: mode == "planted", SupplyWKT: wktContent, UnusedHeavy: unusedHeavy, CustomOptions: true})
	s.Event("case mode=%s modules=%d files=%d targets=%v", mode, len(m.ws.Modules), len(m.ws.Files), m.ws.Targets())

	if m.prop == "C02" {
		m.pins = m.newRemotePins()
		if tp.Draw("publichub", 3) == 2 {
			m.hubLeaves = 3 + tp.Draw("hubleaves", 6)
			s.Probe("public-hub-filtered")
		}
		m.against = m.ws.Mutate(tp)
		// a tape-chosen rule selection: categories and single rule ids, with exceptions
		pool := []string{"STANDARD", "COMMENTS", "UNARY_RPC", "PACKAGE_NO_IMPORT_CYCLE", "MINIMAL", "BASIC", "RPC_NO_CLIENT_STREAMING"}
		for _, id := range pool {
			if tp.Draw("lintpick", 2) == 1 {
				m.lintUse = append(m.lintUse, id)
			}
		}
		if len(m.lintUse) == 0 {
			m.lintUse = []string{"STANDARD"}
		}
		for _, id := range []string{"PACKAGE_VERSION_SUFFIX", "ENUM_ZERO_VALUE_SUFFIX", "COMMENT_FIELD", "SERVICE_SUFFIX"} {
			if tp.Draw("exceptpick", 3) == 1 {
				m.lintExcept = append(m.lintExcept, id)
			}
		}
	}
	for i := range m.ws.Modules {
		m.extPrefix = append(m.extPrefix, tape.Pick(tp, "extprefix", []string{"", fmt.Sprintf("proj/mod%d", i), fmt.Sprintf("/abs/ws/mod%d", i), fmt.Sprintf("../rel%d", i), "."}))
	}
	// sometimes the same process has built ANOTHER workspace before (an editor integration, the other
	// side of a breaking comparison, a Go API user): nothing of it may leak into this build. The other
	// workspace often supplies well-known types itself and may have been built without source info.
	if tp.Draw("prelude", 3) == 2 {
		other := wsgen.New(tp, wsgen.Options{MaxModules: 2, MaxFiles: 4, SupplyWKT: wktContent, ForceSupplyWKT: tp.Draw("preludewkt", 3) != 0, NoEditions: true})
		main, prefixes := m.ws, m.extPrefix
		m.ws, m.extPrefix = other, nil
		m.excludeSourceInfo = tp.Draw("preludenosrc", 3) == 2
		thread.SetParallelism(4)
		s.Unhashed = true
		res := m.pipeline(context.Background(), false)
		s.Unhashed = false
		m.ws, m.extPrefix, m.excludeSourceInfo = main, prefixes, false
		if res.err != nil {
			s.Violate("harness-reference", "harness|prelude-failed", "building the other workspace failed: %v", res.err)
			s.Drain()
			return engine.FromSim(s)
		}
		s.Probe("another-workspace-built-before")
	}
	var ref map[string]*descriptorpb.FileDescriptorProto
	if mode == "planted" {
		m.refErrors = m.referenceErrors()
		if m.ws.Closure()[m.ws.Planted.Path] && len(m.refErrors) == 0 {
			s.Violate("harness-reference", "harness|planted-not-an-error", "the planted %s in %s is not an error for the reference compiler", m.ws.Planted.PlantKind, m.ws.Planted.Path)
			s.Drain()
			return engine.FromSim(s)
		}
	}
	if mode != "planted" {
		var err error
		ref, err = m.reference()
		if err != nil {
			s.Violate("harness-reference", "harness|reference-compile", "reference compile failed: %v", err)
			s.Drain()
			return engine.FromSim(s)
		}
	}
	if m.prop == "C02" && ref != nil {
		m.filterTypes = m.drawFilterTypes(ref)
		m.withFormatDiff = tp.Draw("formatdiff", 4) == 3
		m.withFormatBroken = tp.Draw("formatbroken", 3) == 2
		if m.cliUsable() && tp.Draw("cli", 4) == 3 {
			m.cliRoot = m.writeCLIWorkspace()
		}
	}
	ntasks := len(m.ws.Files) + 6

	// baseline: one worker, sorted walks, canonical listing order
	// (even with one worker the order in which protocompile's task goroutines obtain its semaphore
	// is the Go runtime's choice: the baseline's schedule is not part of the trace hash, its outputs are)
	thread.SetParallelism(1)
	s.FIFO, s.Unhashed = true, true
	base := m.run(m.prop == "C02")
	s.FIFO, s.Unhashed = false, false
	arrivalBase := strings.Join(m.arrival, ",")
	distinctArrivals := map[string]struct{}{arrivalBase: {}}
	switch mode {
	case "planted":
		m.checkPlanted(base, "baseline")
		if m.prop == "C01" && m.cliUsable() && m.ws.Closure()[m.ws.Planted.Path] && tp.Draw("cliplanted", 3) == 2 {
			s.Unhashed = true
			m.cliPlantedError(context.Background())
			s.Unhashed = false
		}
	default:
		if base.err != nil {
			if m.prop == "C02" {
				// whatever made the baseline fail: does the SAME build succeed when modules, paths, rules and
				// walks come in another order? Then the outcome depends on the order, which is C02's subject
				// (if every order fails alike the problem is the generator's or another property's).
				s.FIFO, s.Unhashed = true, true
				for k := 0; k < 3; k++ {
					m.permuteWalk, m.permuteMods, m.permuteLists = k != 1, k != 2, true
					if res := m.run(true); res.err == nil {
						m.violate("schedule-independence", "baseline-failed-another-order-succeeds", "the build with everything listed in canonical order failed (%v); the same build with lists, modules and walks in another order succeeded", base.err)
						break
					}
				}
				s.FIFO, s.Unhashed = false, false
				m.permuteWalk, m.permuteMods, m.permuteLists = false, false, false
			}
			s.Violate("harness-reference", "harness|baseline-failed", "fault-free baseline build failed: %v", base.err)
			s.Drain()
			return engine.FromSim(s)
		}
		m.checkImage(base.image, ref, "baseline")
		// the same workspace on disk through the real command: `buf build <dir> --path ... -o file`
		// (controller, workspace discovery, bucket targeting), once with the flags in canonical and
		// once in a permuted order; free-running
		if mode == "schedule" && m.prop == "C01" && m.cliUsable() && tp.Draw("cli", 4) == 3 {
			m.cliRoot = m.writeCLIWorkspace()
			for k := 0; k < 2; k++ {
				m.permuteLists = k == 1
				m.cliVariant = k
				s.Unhashed = true
				image, _, err := m.cliBuild(context.Background(), m.cliRoot)
				s.Unhashed = false
				if err != nil {
					m.violate("exact-closure", "cli", "buf build of the same workspace on disk failed: %v", err)
					break
				}
				m.cliSite = true
				m.checkImage(image, ref, "cli")
				m.cliSite = false
			}
			m.permuteLists = false
			s.Probe("built-through-the-command-line")
		}
	}

	rounds := 3
	if env.Tier == "thorough" {
		rounds = 6
	}
	for r := 0; r < rounds; r++ {
		// controlled perturbation: every compile task may be parked at once
		par := ntasks
		ambient := false
		if tp.Draw("ambient", 3) == 2 {
			par = tape.Pick(tp, "par", []int{2, 3, 4, 8})
			ambient = true
		}
		thread.SetParallelism(par)
		m.permuteWalk = tp.Draw("permwalk", 2) == 1
		m.permuteMods = tp.Draw("permmods", 2) == 1
		m.permuteLists = tp.Draw("permlists", 2) == 1
		s.YieldJobs = tp.Draw("yieldjobs", 2) == 1
		m.faults, m.cancelAt = false, 0
		// readers that hand out fewer bytes than asked for (legal, no error) in some perturbed executions
		m.shortReads = !ambient && tp.Draw("shortreads", 3) == 2
		if mode == "fault" {
			if tp.Draw("cancel", 4) == 3 {
				m.cancelAt = 1 + tp.Draw("cancelat", len(m.ws.Files))
			} else {
				m.faults = true
				m.faultKind = tape.Pick(tp, "fkind", []string{"get", "read", "any", "stat", "get", "read", "walk"})
				m.faultRate = tape.Pick(tp, "frate", []int{6, 12, 3})
				m.faultBudget = 1 + tp.Draw("fbudget", 2)
			}
		}
		if m.cancelAt > 0 && !ambient {
			// cancellation races with everything in flight: this execution is left to the runtime too
			s.FIFO, s.Unhashed = true, true
		}
		if ambient {
			// fewer workers than compile tasks: which tasks hold protocompile's semaphore is the Go
			// runtime's choice, so the parked set is not reproducible. Leave this execution to the
			// runtime entirely (no draws, not part of the trace hash); its OUTPUTS are still checked.
			m.faults, m.cancelAt = false, 0
			s.FIFO, s.Unhashed = true, true
		}
		fired, short := totalFired(s), s.Faults["short-read"]
		res := m.run(m.prop == "C02")
		// (a short read is legal reader behaviour, not a failure)
		fired = totalFired(s) - fired - (s.Faults["short-read"] - short)
		s.FIFO, s.Unhashed = false, false
		site := "perturbed"
		if ambient {
			site = "ambient"
			m.counters["ambient_executions"]++
		}
		distinctArrivals[strings.Join(m.arrival, ",")] = struct{}{}
		s.Event("round %d par=%d walkperm=%v modperm=%v jobs=%v fired=%d err=%v", r, par, m.permuteWalk, m.permuteMods, s.YieldJobs, fired, res.err != nil)
		switch mode {
		case "planted":
			m.checkPlanted(res, site)
		case "fault":
			if ambient {
				if res.err != nil {
					m.violate("schedule-independence", site, "build failed without any fault: %v", res.err)
				} else {
					m.checkImage(res.image, ref, site)
				}
				continue
			}
			// a fault may hit a file that turns out not to be needed; but an image that is returned must be right
			if res.err == nil {
				m.checkImage(res.image, ref, site)
				if res.outputs["image"] != base.outputs["image"] {
					m.violate("fault-transparency", site, "an injected read fault fired (%d) and the build returned a different image without error", fired)
				}
			} else if fired == 0 {
				m.violate("schedule-independence", site, "build failed although nothing failed (only short reads were served): %v", res.err)
			} else {
				m.s.Probe("build-failed-under-fault")
			}
		default:
			if res.err != nil {
				m.violate("schedule-independence", site, "build failed under a perturbed schedule: %v", res.err)
				continue
			}
			m.checkImage(res.image, ref, site)
			for _, k := range simfs.SortedKeys(base.outputs) {
				if res.outputs[k] != base.outputs[k] {
					m.violate("output-identical", site+"|"+k, "output %q differs from the baseline (par=%d walkperm=%v modperm=%v): %s", k, par, m.permuteWalk, m.permuteMods, firstDiff(base.outputs[k], res.outputs[k]))
				}
			}
			for _, k := range simfs.SortedKeys(res.outputs) {
				if _, ok := base.outputs[k]; !ok {
					m.violate("output-identical", site+"|"+k, "output %q exists only under the perturbed schedule", k)
				}
			}
		}
	}
	// free-running rounds: no scheduling points at all - the goroutines of the code under test run
	// truly in parallel (GOMAXPROCS is 1, 4 or 16 depending on the worker) under several worker
	// counts; nothing is drawn and nothing is hashed, but every output is compared with the baseline
	if mode == "schedule" {
		free := 2
		if env.Tier == "thorough" {
			free = 4
		}
		for r := 0; r < free; r++ {
			par := []int{16, 2, 4, 8}[(r+len(m.ws.Files))%4]
			thread.SetParallelism(par)
			m.permuteWalk, m.faults, m.cancelAt = false, false, 0
			s.Unhashed = true
			res := m.pipeline(context.Background(), m.prop == "C02")
			s.Unhashed = false
			m.counters["free_executions"]++
			site := "free-running"
			if res.err != nil {
				m.violate("schedule-independence", site, "build failed when running freely with %d workers: %v", par, res.err)
				continue
			}
			m.checkImage(res.image, ref, site)
			for _, k := range simfs.SortedKeys(base.outputs) {
				if res.outputs[k] != base.outputs[k] {
					m.violate("output-identical", site+"|"+k, "output %q differs from the baseline when running freely with %d workers: %s", k, par, firstDiff(base.outputs[k], res.outputs[k]))
				}
			}
		}
	}
	if len(distinctArrivals) > 1 {
		s.Probe("arrival-order-distinct")
	}
	if m.prop == "C02" && m.cliRoot != "" {
		m.cliRunAfterRun()
	}
	if m.prop == "C02" && tp.Draw("twobroken", 6) == 5 {
		m.cliTwoBrokenModules()
	}
	s.Drain()
	out := engine.FromSim(s)
	out.Counters = m.counters
	var arr []string
	for a := range distinctArrivals {
		arr = append(arr, a)
	}
	out.Distinct = map[string][]string{"arrival-order": arr}
	out.Sample = map[string]any{
		"mode": mode, "modules": len(m.ws.Modules), "files": len(m.ws.Files), "targets": m.ws.Targets(),
		"executions": m.counters["executions"], "distinct_arrival_orders": len(distinctArrivals), "outputs": simfs.SortedKeys(base.outputs),
	}
	return out
}

func firstDiff(a, b string) string {
	n := min(len(a), len(b))
	i := 0
	for i < n && a[i] == b[i] {
		i++
	}
	lo := max(0, i-30)
	return fmt.Sprintf("first difference at byte %d: %q vs %q", i, clip(a[lo:], 70), clip(b[lo:], 70))
}

func clip(s string, n int) string {
	if len(s) > n {
		return s[:n]
	}
	return s
}

func totalFired(s *sched.Sim) int {
	n := 0
	for _, v := range s.Faults {
		n += v
	}
	return n
}

// checkPlanted: a workspace that does not compile yields no image but a
// diagnostic at the planted file:line:column with the path the user gave.
func (m *bsim) checkPlanted(res *result, site string) {
	f := m.ws.Planted
	inClosure := m.ws.Closure()[f.Path]
	if !inClosure {
		// the broken file is not needed for the targets: the build must succeed
		if res.err != nil {
			m.violate("planted-error", site, "the planted error is in %s which no target needs, but the build failed: %v", f.Path, res.err)
		}
		return
	}
	if res.err == nil {
		m.violate("planted-error", site, "workspace with a planted error (%s) in %s built without error", f.PlantKind, f.Path)
		return
	}
	var set bufanalysis.FileAnnotationSet
	if !errors.As(res.err, &set) {
		m.violate("planted-error", site, "expected a FileAnnotationSet, got %T: %v", res.err, res.err)
		return
	}
	// the diagnostic the compiler itself gives first, at the path the user gave
	want := m.refErrors[0]
	wantPath := m.externalPath(f.Module, want.path)
	if f.ErrorLine != 0 && (want.path != f.Path || want.line != f.ErrorLine || want.col != f.ErrorColumn) {
		m.s.Violate("harness-reference", "harness|planted-position", "reference compiler reports %s:%d:%d, planted at %s:%d:%d", want.path, want.line, want.col, f.Path, f.ErrorLine, f.ErrorColumn)
		return
	}
	ok := false
	var seen []string
	for _, a := range set.FileAnnotations() {
		path := ""
		if a.FileInfo() != nil {
			path = a.FileInfo().ExternalPath()
		}
		seen = append(seen, fmt.Sprintf("%s:%d:%d:%s", path, a.StartLine(), a.StartColumn(), a.Message()))
		if path == wantPath && a.StartLine() == want.line && a.StartColumn() == want.col {
			ok = true
		}
		if path != m.externalPath(f.Module, f.Path) {
			m.violate("planted-error", site+"|other-file", "the only error is in %s but a diagnostic points at %q", f.Path, path)
		}
	}
	if !ok {
		m.violate("planted-error", site, "no diagnostic %s:%d:%d:%s (kind %s); got %v", wantPath, want.line, want.col, want.msg, f.PlantKind, seen)
	} else {
		m.s.Probe("planted-error-located")
		m.s.Probe("planted-" + f.PlantKind)
	}
}

var _ = bytes.Equal
