package buildsim

import (
	"bytes"
	"context"
	"errors"
	"fmt"
	"io"
	"sort"
	"strings"

	"github.com/bufbuild/buf/private/buf/bufformat"
	"github.com/bufbuild/buf/private/bufpkg/bufanalysis"
	"github.com/bufbuild/buf/private/bufpkg/bufcheck"
	"github.com/bufbuild/buf/private/bufpkg/bufconfig"
	"github.com/bufbuild/buf/private/bufpkg/bufimage"
	"github.com/bufbuild/buf/private/bufpkg/bufimage/bufimageutil"
	"github.com/bufbuild/buf/private/bufpkg/bufmodule"
	"github.com/bufbuild/buf/private/bufpkg/bufplugin"
	"github.com/bufbuild/buf/private/gen/data/datawkt"
	"github.com/bufbuild/buf/private/pkg/protoencoding"
	"github.com/bufbuild/buf/private/pkg/slogext"
	"github.com/bufbuild/buf/private/pkg/storage"
	"github.com/bufbuild/buf/private/pkg/storage/storagemem"
	"github.com/bufbuild/buf/private/pkg/wasm"
	"google.golang.org/protobuf/reflect/protoreflect"
	"google.golang.org/protobuf/types/descriptorpb"
)

type protoFile = protoreflect.FileDescriptor

func renderAnnotations(err error) (string, error) {
	if err == nil {
		return "", nil
	}
	var set bufanalysis.FileAnnotationSet
	if !errors.As(err, &set) {
		return "", err
	}
	var out bytes.Buffer
	for _, format := range bufanalysis.AllFormatStrings {
		out.WriteString("--- " + format + "\n")
		if err := bufanalysis.PrintFileAnnotationSet(&out, set, format); err != nil {
			return "", err
		}
	}
	return out.String(), nil
}

// moreOutputs derives every other output C02 names from the module set and the image,
// assembled the way bufctl.Controller assembles them.
func (m *bsim) moreOutputs(ctx context.Context, moduleSet bufmodule.ModuleSet, image bufimage.Image, res *result) error {
	// ls-files (--include-imports)
	fileInfos, err := bufmodule.GetFileInfos(ctx, bufmodule.ModuleSetToModuleReadBucketWithOnlyProtoFiles(moduleSet))
	if err != nil {
		return fmt.Errorf("ls-files: %w", err)
	}
	infos := make([]bufimage.ImageFileInfo, len(fileInfos))
	for i, fi := range fileInfos {
		infos[i] = bufimage.ImageFileInfoForModuleFileInfo(fi)
	}
	infos, err = bufimage.ImageFileInfosWithOnlyTargetsAndTargetImports(ctx, datawkt.ReadBucket, infos)
	if err != nil {
		return fmt.Errorf("ls-files: %w", err)
	}
	sort.Slice(infos, func(i, j int) bool { return infos[i].ExternalPath() < infos[j].ExternalPath() })
	var ls strings.Builder
	for _, info := range infos {
		fmt.Fprintf(&ls, "%s import=%v\n", info.ExternalPath(), info.IsImport())
	}
	res.outputs["ls-files"] = ls.String()

	// dependency graph
	graph, err := bufmodule.ModuleSetToDAG(moduleSet)
	if err != nil {
		return fmt.Errorf("dep graph: %w", err)
	}
	dot, err := graph.DOTString(func(mod bufmodule.Module) string { return moduleLabel(mod) })
	if err != nil {
		return fmt.Errorf("dep graph: %w", err)
	}
	res.outputs["dep-graph"] = dot

	// digests
	var dg strings.Builder
	mods := append([]bufmodule.Module(nil), moduleSet.Modules()...)
	sort.Slice(mods, func(i, j int) bool { return moduleLabel(mods[i]) < moduleLabel(mods[j]) })
	for _, mod := range mods {
		d, err := mod.Digest(bufmodule.DigestTypeB5)
		if err != nil {
			return fmt.Errorf("digest: %w", err)
		}
		fmt.Fprintf(&dg, "%s %s\n", moduleLabel(mod), d.String())
	}
	res.outputs["digests"] = dg.String()

	// the image filtered down to some types (buf build --type ...), listed in this execution's order
	if len(m.filterTypes) > 0 {
		types := m.permuted("filtertypes", m.filterTypes)
		filtered, err := bufimageutil.FilterImage(image, bufimageutil.WithIncludeTypes(types...))
		if err != nil {
			return fmt.Errorf("filter %v: %w", types, err)
		}
		protoFiltered, err := bufimage.ImageToProtoImage(filtered)
		if err != nil {
			return fmt.Errorf("filter: %w", err)
		}
		data, err := protoencoding.NewWireMarshaler().Marshal(protoFiltered)
		if err != nil {
			return fmt.Errorf("filter: %w", err)
		}
		var names []string
		for _, f := range filtered.Files() {
			names = append(names, f.Path())
		}
		res.outputs["filtered-image"] = strings.Join(names, ",") + "\n" + string(data)
	}

	// the image as the command line writes it for the same workspace on disk (flags in this execution's order)
	if m.cliRoot != "" {
		// executions alternate between the two copies of the workspace on disk
		m.cliVariant = m.counters["executions"] % 2
		_, data, err := m.cliBuild(ctx, m.cliRoot)
		if err != nil {
			return fmt.Errorf("buf build on disk: %w", err)
		}
		res.outputs["cli-image"] = string(data)
		// the image just written as the INPUT of another build, restricted to some of its files by --path
		// flags in this execution's listing order (an image input is targeted by other code than sources)
		if again, ok, err := m.cliBuildFromImage(ctx); err != nil {
			return fmt.Errorf("buf build on the image: %w", err)
		} else if ok {
			res.outputs["cli-image-of-image"] = again
		}
		// and what `buf ls-files` and `buf lint` print for it
		res.outputs["cli-ls-files"] = m.cliText(ctx, m.cliRoot, "ls-files", "--include-imports")
		res.outputs["cli-lint"] = m.cliText(ctx, m.cliRoot, "lint", "--error-format", "json")
	}

	// lint
	client, err := bufcheck.NewClient(slogext.NopLogger, bufcheck.NewLocalRunnerProvider(wasm.UnimplementedRuntime, bufplugin.NopPluginKeyProvider, bufplugin.NopPluginDataProvider))
	if err != nil {
		return fmt.Errorf("lint client: %w", err)
	}
	// rule ids and categories in the order this execution lists them, plus ignore paths
	lintUse, lintExcept := m.ruleLists()
	lintCheck, err := bufconfig.NewEnabledCheckConfig(bufconfig.FileVersionV2, lintUse, lintExcept, nil, nil, false)
	if err != nil {
		return fmt.Errorf("lint config: %w", err)
	}
	lintConfig := bufconfig.NewLintConfig(lintCheck, "", false, false, false, "", true)
	lintOut, err := renderAnnotations(client.Lint(ctx, lintConfig, image))
	if err != nil {
		return fmt.Errorf("lint: %w", err)
	}
	res.outputs["lint"] = lintOut

	// breaking against a mutated copy of the same workspace
	againstSet, err := m.buildModuleSet(ctx, m.against)
	if err != nil {
		return fmt.Errorf("against: %w", err)
	}
	against, err := bufimage.BuildImage(ctx, slogext.NopLogger, bufmodule.ModuleSetToModuleReadBucketWithOnlyProtoFiles(againstSet))
	if err != nil {
		return fmt.Errorf("against: %w", err)
	}
	breakingUse := m.permuted("breakuse", []string{"FILE", "WIRE_JSON", "PACKAGE"})
	breakingCheck, err := bufconfig.NewEnabledCheckConfig(bufconfig.FileVersionV2, breakingUse, nil, nil, nil, false)
	if err != nil {
		return fmt.Errorf("breaking config: %w", err)
	}
	breakingOut, err := renderAnnotations(client.Breaking(ctx, bufconfig.NewBreakingConfig(breakingCheck, false), image, against))
	if err != nil {
		return fmt.Errorf("breaking: %w", err)
	}
	res.outputs["breaking"] = breakingOut

	// a dependency pinned at several commits: the newest must win whatever the listing order;
	// executed several times because the selection walks a Go map
	for k := 0; k < 4; k++ {
		remote, err := m.remoteOutput(ctx)
		if err != nil {
			return fmt.Errorf("remote pins: %w", err)
		}
		if prev, ok := res.outputs["remote-pins"]; ok && prev != remote {
			res.outputs["remote-pins"] = prev + "\n--- differs within one execution ---\n" + remote
			break
		}
		res.outputs["remote-pins"] = remote
	}

	// a file whose dependencies reach it through the public imports of a hub, restricted to one type
	if m.hubLeaves > 0 {
		for k := 0; k < 4; k++ {
			hubOut, err := m.publicHubOutput(ctx)
			if err != nil {
				return fmt.Errorf("public hub: %w", err)
			}
			if prev, ok := res.outputs["filtered-public-hub"]; ok && prev != hubOut {
				res.outputs["filtered-public-hub"] = prev + "\n--- differs within one execution ---\n" + hubOut
				break
			}
			res.outputs["filtered-public-hub"] = hubOut
		}
	}

	// format
	formatted, err := bufformat.FormatModuleSet(ctx, moduleSet)
	if err != nil {
		return fmt.Errorf("format: %w", err)
	}
	// `buf format` writes the formatted files to stdout in the order the formatted bucket walks them
	var fm strings.Builder
	if err := storage.WalkReadObjects(ctx, formatted, "", func(ro storage.ReadObject) error {
		data, err := io.ReadAll(ro)
		if err != nil {
			return err
		}
		fmt.Fprintf(&fm, "=== %s\n%s", ro.Path(), data)
		return nil
	}); err != nil {
		return fmt.Errorf("format: %w", err)
	}
	res.outputs["format"] = fm.String()

	// `buf format` of a tree in which exactly ONE file does not parse: what the user is told (the
	// failure text) is part of the output too, and with a single broken file it does not depend on
	// how many workers format the other files or in which order they finish
	if m.withFormatBroken {
		files := map[string][]byte{}
		for p, f := range m.ws.Files {
			files[p] = []byte(f.Content)
		}
		files["zz/broken.proto"] = []byte("syntax = \"proto3\";\npackage zz;\nmessage Broken { string = 1; }\n")
		bucket, err := storagemem.NewReadBucket(files)
		if err != nil {
			return fmt.Errorf("format (broken): %w", err)
		}
		_, ferr := bufformat.FormatBucket(ctx, bucket)
		if ferr == nil {
			return fmt.Errorf("format (broken): a file that does not parse was formatted without error")
		}
		res.outputs["format-error"] = ferr.Error()
	}

	// `buf format -d`: the unified diffs of the files that would change, one after the other (this
	// shells out to diff(1) once per changed file, so only some runs produce this output)
	if m.withFormatDiff {
		original := bufmodule.ModuleReadBucketToStorageReadBucket(bufmodule.ModuleReadBucketWithOnlyTargetFiles(
			bufmodule.ModuleSetToModuleReadBucketWithOnlyProtoFilesForTargetModules(moduleSet)))
		formattedTargets, err := bufformat.FormatBucket(ctx, original)
		if err != nil {
			return fmt.Errorf("format -d: %w", err)
		}
		var diffBuffer bytes.Buffer
		changed, err := storage.DiffWithFilenames(ctx, &diffBuffer, original, formattedTargets, storage.DiffWithExternalPaths(), storage.DiffWithSuppressTimestamps())
		if err != nil {
			return fmt.Errorf("format -d: %w", err)
		}
		res.outputs["format-diff"] = strings.Join(changed, ",") + "\n" + diffBuffer.String()
	}
	return nil
}

func moduleLabel(mod bufmodule.Module) string {
	if fn := mod.FullName(); fn != nil {
		return fn.String()
	}
	return mod.OpaqueID()
}

// permuted returns xs in the listing order of the current execution (canonical for the baseline).
func (m *bsim) permuted(label string, xs []string) []string {
	out := append([]string(nil), xs...)
	if !m.permuteLists {
		return out
	}
	perm := m.tp.Perm(label, len(out))
	for i, j := range perm {
		out[i] = xs[j]
	}
	return out
}

// ruleLists returns the lint use / except lists of this case in this execution's listing order.
func (m *bsim) ruleLists() ([]string, []string) {
	return m.permuted("lintuse", m.lintUse), m.permuted("lintexcept", m.lintExcept)
}

// drawFilterTypes picks the --type arguments from the targeted files (reference descriptors): some
// messages (also nested ones), enums, services and methods; often an element together with
// something nested in it.
func (m *bsim) drawFilterTypes(ref map[string]*descriptorpb.FileDescriptorProto) []string {
	type pair struct{ parent, child string }
	var all []string
	var pairs []pair
	var walk func(prefix string, msgs []*descriptorpb.DescriptorProto)
	walk = func(prefix string, msgs []*descriptorpb.DescriptorProto) {
		for _, msg := range msgs {
			if msg.GetOptions().GetMapEntry() {
				continue
			}
			name := prefix + msg.GetName()
			all = append(all, name)
			for _, n := range msg.GetNestedType() {
				if !n.GetOptions().GetMapEntry() {
					pairs = append(pairs, pair{name, name + "." + n.GetName()})
				}
			}
			for _, e := range msg.GetEnumType() {
				pairs = append(pairs, pair{name, name + "." + e.GetName()})
			}
			walk(name+".", msg.GetNestedType())
		}
	}
	targets := append([]string(nil), m.ws.Targets()...)
	sort.Strings(targets)
	for _, p := range targets {
		fd := ref[p]
		if fd == nil {
			continue
		}
		prefix := ""
		if fd.GetPackage() != "" {
			prefix = fd.GetPackage() + "."
		}
		walk(prefix, fd.GetMessageType())
		for _, e := range fd.GetEnumType() {
			all = append(all, prefix+e.GetName())
		}
		for _, svc := range fd.GetService() {
			all = append(all, prefix+svc.GetName())
			for _, method := range svc.GetMethod() {
				pairs = append(pairs, pair{prefix + svc.GetName(), prefix + svc.GetName() + "." + method.GetName()})
			}
		}
	}
	if len(all) == 0 || m.tp.Draw("filter?", 4) == 0 {
		return nil
	}
	seen := map[string]bool{}
	var out []string
	add := func(s string) {
		if !seen[s] {
			seen[s] = true
			out = append(out, s)
		}
	}
	// the head of a chain of extensions, alone: its known extensions drag in the rest of the chain
	var heads []string
	for _, name := range all {
		if base := name[strings.LastIndex(name, ".")+1:]; strings.HasPrefix(base, "Chain") && strings.HasSuffix(base, "A") {
			heads = append(heads, name)
		}
	}
	if len(heads) > 0 && m.tp.Draw("filterchain", 2) == 1 {
		m.s.Probe("filter-head-of-extension-chain")
		return []string{heads[m.tp.Draw("filterchainidx", len(heads))]}
	}
	if len(pairs) > 0 && m.tp.Draw("filterpair", 3) != 0 {
		pr := pairs[m.tp.Draw("filterpairidx", len(pairs))]
		add(pr.parent)
		add(pr.child)
		m.s.Probe("filter-element-and-nested")
	}
	for k := m.tp.Draw("filtern", 3); k > 0 || len(out) == 0; k-- {
		add(all[m.tp.Draw("filtertype", len(all))])
	}
	sort.Strings(out)
	return out
}
