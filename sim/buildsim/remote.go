package buildsim

import (
	"context"
	"fmt"
	"github.com/bufbuild/buf/private/bufpkg/bufimage"
	"github.com/bufbuild/buf/private/bufpkg/bufimage/bufimageutil"
	"io/fs"
	"sort"
	"strings"
	"time"

	"github.com/bufbuild/buf/private/bufpkg/bufmodule"
	"github.com/bufbuild/buf/private/bufpkg/bufmodule/bufmoduletesting"
	"github.com/bufbuild/buf/private/bufpkg/bufparse"
	"github.com/bufbuild/buf/private/pkg/slogext"
	"github.com/bufbuild/buf/private/pkg/storage"
	"github.com/bufbuild/buf/private/pkg/storage/storagemem"
	"github.com/bufbuild/buf/private/pkg/uuidutil"
	"github.com/google/uuid"
)

// remotePins is a dependency pinned at several commits (as happens when several local
// modules' lock files pin different commits of one dependency): the module set must pick
// the newest commit whatever order the pins are listed in.
type remotePins struct {
	keys     []bufmodule.ModuleKey
	byCommit map[uuid.UUID]bufmoduletesting.OmniProvider
	// newest: the commit(s) with the latest create time - two of them when the two latest commits
	// were created at the same instant (any one of them may win, but the same one every time)
	newest map[uuid.UUID]bool
}

func (r *remotePins) find(id uuid.UUID) (bufmoduletesting.OmniProvider, error) {
	p, ok := r.byCommit[id]
	if !ok {
		return nil, &fs.PathError{Op: "read", Path: uuidutil.ToDashless(id), Err: fs.ErrNotExist}
	}
	return p, nil
}

func (r *remotePins) GetModuleDatasForModuleKeys(ctx context.Context, keys []bufmodule.ModuleKey) ([]bufmodule.ModuleData, error) {
	var out []bufmodule.ModuleData
	for _, k := range keys {
		p, err := r.find(k.CommitID())
		if err != nil {
			return nil, err
		}
		ds, err := p.GetModuleDatasForModuleKeys(ctx, []bufmodule.ModuleKey{k})
		if err != nil {
			return nil, err
		}
		out = append(out, ds...)
	}
	return out, nil
}

func (r *remotePins) GetCommitsForModuleKeys(ctx context.Context, keys []bufmodule.ModuleKey) ([]bufmodule.Commit, error) {
	var out []bufmodule.Commit
	for _, k := range keys {
		p, err := r.find(k.CommitID())
		if err != nil {
			return nil, err
		}
		cs, err := p.GetCommitsForModuleKeys(ctx, []bufmodule.ModuleKey{k})
		if err != nil {
			return nil, err
		}
		out = append(out, cs...)
	}
	return out, nil
}

func (r *remotePins) GetCommitsForCommitKeys(ctx context.Context, keys []bufmodule.CommitKey) ([]bufmodule.Commit, error) {
	var out []bufmodule.Commit
	for _, k := range keys {
		p, err := r.find(k.CommitID())
		if err != nil {
			return nil, err
		}
		cs, err := p.GetCommitsForCommitKeys(ctx, []bufmodule.CommitKey{k})
		if err != nil {
			return nil, err
		}
		out = append(out, cs...)
	}
	return out, nil
}

// newRemotePins draws 2-5 commits of one dependency with distinct create times.
func (m *bsim) newRemotePins() *remotePins {
	n := 2 + m.tp.Draw("pins", 4)
	r := &remotePins{byCommit: map[uuid.UUID]bufmoduletesting.OmniProvider{}}
	var newestTime time.Time
	times := m.tp.Perm("pintimes", n)
	if m.tp.Draw("pintie", 3) == 2 {
		// the two latest commits carry the same create time
		for i := range times {
			if times[i] == n-2 {
				times[i] = n - 1
			}
		}
		m.s.Probe("pinned-commits-with-equal-create-time")
	}
	r.newest = map[uuid.UUID]bool{}
	for i := 0; i < n; i++ {
		var id uuid.UUID
		copy(id[:], m.tp.Bytes("pincommit", 16))
		id[15] = byte(i)
		id[6] = (id[6] & 0x0f) | 0x40
		id[8] = (id[8] & 0x3f) | 0x80
		created := time.Unix(1700000000+int64(times[i])*3600, 0)
		p, err := bufmoduletesting.NewOmniProvider(bufmoduletesting.ModuleData{
			Name: "buf.build/acme/dep", CommitID: id, CreateTime: created,
			PathToData: map[string][]byte{"dep/d.proto": []byte(fmt.Sprintf("syntax = \"proto3\";\npackage dep;\n// commit %d\nmessage D { string s = 1; }\n", i))},
		})
		if err != nil {
			panic(err)
		}
		fn, _ := bufparse.ParseFullName("buf.build/acme/dep")
		ref, _ := bufparse.NewRef(fn.Registry(), fn.Owner(), fn.Name(), "")
		keys, err := p.GetModuleKeysForModuleRefs(context.Background(), []bufparse.Ref{ref}, bufmodule.DigestTypeB5)
		if err != nil {
			panic(err)
		}
		r.keys = append(r.keys, keys[0])
		r.byCommit[id] = p
		if created.After(newestTime) {
			newestTime, r.newest = created, map[uuid.UUID]bool{}
		}
		if created.Equal(newestTime) {
			r.newest[id] = true
		}
	}
	return r
}

// remoteOutput builds a module set of one local module that imports the dependency plus the
// pinned commits (in this execution's listing order) and renders what a user sees of it.
func (m *bsim) remoteOutput(ctx context.Context) (string, error) {
	r := m.pins
	builder := bufmodule.NewModuleSetBuilder(ctx, slogext.NopLogger, r, r)
	app := storagemem.NewReadWriteBucket()
	if err := storage.PutPath(ctx, app, "app/a.proto", []byte("syntax = \"proto3\";\npackage app;\nimport \"dep/d.proto\";\nmessage A { dep.D d = 1; }\n")); err != nil {
		return "", err
	}
	builder.AddLocalModule(app, "app-bucket", true)
	order := make([]int, len(r.keys))
	for i := range order {
		order[i] = i
	}
	if m.permuteLists {
		order = m.tp.Perm("pinorder", len(order))
	}
	for _, i := range order {
		builder.AddRemoteModule(r.keys[i], false)
	}
	moduleSet, err := builder.Build()
	if err != nil {
		return "", err
	}
	var lines []string
	for _, mod := range moduleSet.Modules() {
		d, err := mod.Digest(bufmodule.DigestTypeB5)
		if err != nil {
			return "", err
		}
		lines = append(lines, fmt.Sprintf("%s commit=%s %s", moduleLabel(mod), uuidutil.ToDashless(mod.CommitID()), d.String()))
		if mod.FullName() != nil && !r.newest[mod.CommitID()] {
			lines = append(lines, "NOT-NEWEST")
		}
	}
	sort.Strings(lines)
	graph, err := bufmodule.ModuleSetToDAG(moduleSet)
	if err != nil {
		return "", err
	}
	dot, err := graph.DOTString(func(mod bufmodule.Module) string { return moduleLabel(mod) + "@" + uuidutil.ToDashless(mod.CommitID()) })
	if err != nil {
		return "", err
	}
	out := ""
	for _, l := range lines {
		out += l + "\n"
	}
	return out + dot, nil
}

// publicHubOutput: top.proto imports hub.proto, which publicly imports 3-8 leaf files; top uses a type of
// every leaf without importing one of them itself. The image restricted to top's message (buf build --type)
// must list the dependencies of top.proto in the same order every time - the ones picked up through the
// hub's public imports included. Executed several times per execution: the code walks Go maps.
func (m *bsim) publicHubOutput(ctx context.Context) (string, error) {
	n := m.hubLeaves
	bucket := storagemem.NewReadWriteBucket()
	var hub, top strings.Builder
	hub.WriteString("syntax = \"proto3\";\npackage hub;\n")
	top.WriteString("syntax = \"proto3\";\npackage hub;\nimport \"hub/hub.proto\";\nmessage Top {\n")
	for i := 0; i < n; i++ {
		fmt.Fprintf(&hub, "import public \"hub/leaf%d.proto\";\n", i)
		fmt.Fprintf(&top, "  Leaf%d l%d = %d;\n", i, i, i+1)
		if err := storage.PutPath(ctx, bucket, fmt.Sprintf("hub/leaf%d.proto", i), []byte(fmt.Sprintf("syntax = \"proto3\";\npackage hub;\nmessage Leaf%d { string s = 1; }\n", i))); err != nil {
			return "", err
		}
	}
	top.WriteString("}\n")
	if err := storage.PutPath(ctx, bucket, "hub/hub.proto", []byte(hub.String())); err != nil {
		return "", err
	}
	if err := storage.PutPath(ctx, bucket, "hub/top.proto", []byte(top.String())); err != nil {
		return "", err
	}
	builder := bufmodule.NewModuleSetBuilder(ctx, slogext.NopLogger, bufmodule.NopModuleDataProvider, bufmodule.NopCommitProvider)
	builder.AddLocalModule(bucket, "hub-bucket", true)
	moduleSet, err := builder.Build()
	if err != nil {
		return "", err
	}
	image, err := bufimage.BuildImage(ctx, slogext.NopLogger, bufmodule.ModuleSetToModuleReadBucketWithOnlyProtoFiles(moduleSet))
	if err != nil {
		return "", err
	}
	filtered, err := bufimageutil.FilterImage(image, bufimageutil.WithIncludeTypes("hub.Top"))
	if err != nil {
		return "", err
	}
	out := ""
	for _, f := range filtered.Files() {
		out += f.Path() + " <- " + strings.Join(f.FileDescriptorProto().GetDependency(), ",") + "\n"
	}
	return out, nil
}
