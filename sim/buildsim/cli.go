package buildsim

import (
	"bytes"
	"context"
	"fmt"
	"os"
	"path/filepath"
	"strings"

	bufcli "github.com/bufbuild/buf/private/buf/cmd/buf"
	"github.com/bufbuild/buf/private/bufpkg/bufimage"
	"github.com/bufbuild/buf/private/pkg/app"
	"github.com/bufbuild/buf/private/pkg/app/appcmd"
	"github.com/bufbuild/buf/private/pkg/protoencoding"
	"github.com/bufbuild/buf/private/pkg/storage/storagearchive"
	"github.com/bufbuild/buf/private/pkg/storage/storagemem"
	"github.com/bufbuild/verif/simfs"
	"google.golang.org/protobuf/proto"

	imagev1 "github.com/bufbuild/buf/private/gen/proto/go/buf/alpha/image/v1"
)

// cliUsable says whether the workspace's targeting can be expressed as `buf build <dir>` plus
// --path / --exclude-path flags (a proto-file reference is another kind of input).
func (m *bsim) cliUsable() bool {
	for _, mod := range m.ws.Modules {
		if mod.ProtoFileTarget != "" {
			return false
		}
	}
	return true
}

// writeCLIWorkspace lays the workspace out on disk as a v2 workspace: buf.yaml at the root, one
// directory per module - or, with three modules, the first two sharing one directory (told apart by
// includes) next to a directory whose name is that directory's plus "-2".
func (m *bsim) writeCLIWorkspace() string {
	root := filepath.Join(m.env.Scratch, "cli", "ws")
	m.cliModDir = nil
	shared := len(m.ws.Modules) == 3 && m.tp.Draw("clishared", 2) == 1
	var y strings.Builder
	y.WriteString("version: v2\nmodules:\n")
	for _, mod := range m.ws.Modules {
		dir := fmt.Sprintf("mod%d", mod.Index)
		if shared {
			dir = "shared"
			if mod.Index == 2 {
				dir = "shared-2"
			}
		}
		m.cliModDir = append(m.cliModDir, dir)
		fmt.Fprintf(&y, "  - path: %s\n", dir)
		if mod.Name != "" {
			fmt.Fprintf(&y, "    name: %s\n", mod.Name)
		}
		tops := map[string]bool{}
		for p, content := range mod.ModuleFiles() {
			if strings.HasSuffix(p, ".proto") {
				tops[strings.SplitN(p, "/", 2)[0]] = true
			} else if shared && mod.Index < 2 {
				// LICENSE / README of two modules would collide in the shared directory
				continue
			}
			full := filepath.Join(root, dir, filepath.FromSlash(p))
			if err := os.MkdirAll(filepath.Dir(full), 0o755); err != nil {
				panic(err)
			}
			if err := os.WriteFile(full, content, 0o644); err != nil {
				panic(err)
			}
		}
		if shared && mod.Index < 2 {
			y.WriteString("    includes:\n")
			for _, top := range simfs.SortedKeys(tops) {
				fmt.Fprintf(&y, "      - %s/%s\n", dir, top)
			}
		}
	}
	if shared {
		m.s.Probe("cli-modules-sharing-a-directory")
	}
	if err := os.WriteFile(filepath.Join(root, "buf.yaml"), []byte(y.String()), 0o644); err != nil {
		panic(err)
	}
	// the same tree as an archive with the workspace in a sub-directory
	m.cliInput = root
	m.cliFlagRoot = root
	if kind := m.tp.Draw("cliinput", 3); kind != 0 {
		files := map[string][]byte{}
		_ = filepath.Walk(root, func(p string, info os.FileInfo, err error) error {
			if err == nil && info.Mode().IsRegular() {
				data, rerr := os.ReadFile(p)
				if rerr != nil {
					panic(rerr)
				}
				rel, _ := filepath.Rel(root, p)
				files["inner/tree/"+filepath.ToSlash(rel)] = data
			}
			return nil
		})
		files["elsewhere/unrelated.txt"] = []byte("not part of the workspace")
		bucket, err := storagemem.NewReadBucket(files)
		if err != nil {
			panic(err)
		}
		var buf bytes.Buffer
		name := "ws.tar"
		if kind == 1 {
			err = storagearchive.Tar(context.Background(), bucket, &buf)
		} else {
			name = "ws.zip"
			err = storagearchive.Zip(context.Background(), bucket, &buf, true)
		}
		if err != nil {
			panic(err)
		}
		archive := filepath.Join(m.env.Scratch, "cli", name)
		if err := os.WriteFile(archive, buf.Bytes(), 0o644); err != nil {
			panic(err)
		}
		m.cliInput = archive + "#subdir=inner/tree"
		m.cliFlagRoot = "" // --path values of an archive input are relative to the sub-directory
		m.s.Probe("cli-archive-input")
	}
	return root
}

// cliArgs expresses the targeting as flags, in this execution's listing order.
func (m *bsim) cliArgs(root string) []string {
	// --path flags are needed only when something is left out by NOT being named; exclusions alone
	// are given without any --path
	restricted, needPaths := false, false
	for _, mod := range m.ws.Modules {
		if !mod.Targeted || len(mod.TargetPaths) > 0 {
			restricted, needPaths = true, true
		}
		if len(mod.ExcludePaths) > 0 {
			restricted = true
		}
	}
	var flags [][2]string
	if restricted {
		for _, mod := range m.ws.Modules {
			if !mod.Targeted {
				continue
			}
			dir := filepath.Join(m.cliFlagRoot, m.cliModDir[mod.Index])
			if len(mod.TargetPaths) == 0 && needPaths {
				// (a module directory itself may not be given as --path: name every top-level directory of its files)
				tops := map[string]bool{}
				for _, f := range mod.Files {
					tops[strings.SplitN(f.Path, "/", 2)[0]] = true
				}
				for _, top := range simfs.SortedKeys(tops) {
					flags = append(flags, [2]string{"--path", filepath.Join(dir, top)})
				}
			}
			for _, p := range mod.TargetPaths {
				flags = append(flags, [2]string{"--path", filepath.Join(dir, filepath.FromSlash(p))})
			}
			for _, p := range mod.ExcludePaths {
				flags = append(flags, [2]string{"--exclude-path", filepath.Join(dir, filepath.FromSlash(p))})
			}
		}
	}
	labels := make([]string, len(flags))
	for i := range flags {
		labels[i] = fmt.Sprint(i)
	}
	var args []string
	for _, l := range m.permuted("cliflags", labels) {
		var i int
		fmt.Sscan(l, &i)
		args = append(args, flags[i][0], flags[i][1])
	}
	return args
}

// cliBuild runs the real `buf build` command in-process on the workspace directory and returns the
// image it wrote.
func (m *bsim) cliBuild(ctx context.Context, root string) (bufimage.Image, []byte, error) {
	out := filepath.Join(m.env.Scratch, "cli", fmt.Sprintf("out%d.binpb", m.counters["cli_builds"]))
	m.counters["cli_builds"]++
	var stdout, stderr bytes.Buffer
	env := map[string]string{"HOME": filepath.Join(m.env.Scratch, "cli", "home"), "BUF_CACHE_DIR": filepath.Join(m.env.Scratch, "cli", "cache"), "PATH": ""}
	args := append([]string{"buf", "build", m.cliInput, "-o", out}, m.cliArgs(root)...)
	container := app.NewContainer(env, strings.NewReader(""), &stdout, &stderr, args...)
	if err := appcmd.Run(ctx, container, bufcli.NewRootCommand("buf")); err != nil {
		return nil, nil, fmt.Errorf("%w (stderr: %s)", err, strings.ReplaceAll(stderr.String(), m.env.Scratch, "<scratch>"))
	}
	data, err := os.ReadFile(out)
	if err != nil {
		return nil, nil, err
	}
	protoImage := &imagev1.Image{}
	if err := protoencoding.NewWireUnmarshaler(nil).Unmarshal(data, protoImage); err != nil {
		if err2 := proto.Unmarshal(data, protoImage); err2 != nil {
			return nil, nil, err
		}
	}
	image, err := bufimage.NewImageForProto(protoImage)
	if err != nil {
		return nil, nil, err
	}
	return image, data, nil
}

// cliText runs another command of the real CLI on the workspace (same input and path flags as the
// build) and returns what it printed; a non-zero exit because of findings is part of the result.
func (m *bsim) cliText(ctx context.Context, root string, command string, extra ...string) string {
	var stdout, stderr bytes.Buffer
	env := map[string]string{"HOME": filepath.Join(m.env.Scratch, "cli", "home"), "BUF_CACHE_DIR": filepath.Join(m.env.Scratch, "cli", "cache"), "PATH": ""}
	args := append([]string{"buf", command, m.cliInput}, m.cliArgs(root)...)
	args = append(args, extra...)
	container := app.NewContainer(env, strings.NewReader(""), &stdout, &stderr, args...)
	err := appcmd.Run(ctx, container, bufcli.NewRootCommand("buf"))
	return fmt.Sprintf("%s\n--- stderr\n%s\n--- failed=%v", stdout.String(), stderr.String(), err != nil)
}
