package buildsim

import (
	"archive/tar"
	"archive/zip"
	"bytes"
	"context"
	"encoding/json"
	"encoding/xml"
	"fmt"
	"os"
	"path/filepath"
	"sort"
	"strings"
	"time"

	bufcli "github.com/bufbuild/buf/private/buf/cmd/buf"
	"github.com/bufbuild/buf/private/bufpkg/bufimage"
	"github.com/bufbuild/buf/private/pkg/app"
	"github.com/bufbuild/buf/private/pkg/app/appcmd"
	"github.com/bufbuild/buf/private/pkg/protoencoding"
	"github.com/bufbuild/buf/private/pkg/thread"
	"github.com/bufbuild/verif/simfs"
	"github.com/bufbuild/verif/tape"
	"google.golang.org/protobuf/proto"

	imagev1 "github.com/bufbuild/buf/private/gen/proto/go/buf/alpha/image/v1"
)

// cliUsable says whether the workspace's targeting can be expressed as `buf build <dir>` plus
// --path / --exclude-path flags (a proto-file reference is another kind of input).
func (m *bsim) cliUsable() bool {
	for _, mod := range m.ws.Modules {
		if mod.ProtoFileTarget != "" {
			return false
		}
	}
	return true
}

// cliPlan holds the tape-drawn decisions about the on-disk layout, so that the same workspace can be
// materialised more than once (in different creation orders) without drawing again.
type cliPlan struct {
	shared    bool
	modDir    []string
	linked    map[string]bool // module/path -> the file lives elsewhere and is linked into the module
	alias     map[string]bool // module/path -> a second name (a link, sorting after the real name) for the file
	inputKind int             // 0 directory, 1 tar, 2 zip
	staleTwin string          // archive member that appears twice: a stale copy first, the real one after it
	// v1: the workspace is configured the old way - buf.work.yaml (or buf.work) at the root, and in each
	// module directory a v1 buf.yaml or, older still, buf.mod
	v1       bool
	workName string
	modCfg   []string
	// rooted[i]: module i is configured the oldest way (v1beta1): its files live below two ROOTS, r1 and r2,
	// each of which also holds a directory of .proto files that the configuration excludes
	rooted []bool
}

// writeCLIWorkspace lays the workspace out on disk as a v2 workspace: buf.yaml at the root, one
// directory per module - or, with three modules, the first two sharing one directory (told apart by
// includes) next to a directory whose name is that directory's plus "-2". Some files live elsewhere
// and are linked in, some have a second name (a link next to them). It is materialised twice: the
// second copy is created in reverse order, links before their targets (directory enumeration order
// follows creation order on some file systems). Executions alternate between the two copies.
func (m *bsim) writeCLIWorkspace() string {
	plan := &cliPlan{linked: map[string]bool{}, alias: map[string]bool{}}
	plan.shared = len(m.ws.Modules) == 3 && m.tp.Draw("clishared", 2) == 1
	appleDouble := false
	for _, mod := range m.ws.Modules {
		dir := fmt.Sprintf("mod%d", mod.Index)
		if plan.shared {
			dir = "shared"
			if mod.Index == 2 {
				dir = "shared-2"
			}
		}
		plan.modDir = append(plan.modDir, dir)
		for _, p := range simfs.SortedKeys(mod.ModuleFiles()) {
			if !strings.HasSuffix(p, ".proto") {
				continue
			}
			if strings.HasPrefix(filepath.Base(p), "._") {
				appleDouble = true
			}
			if m.cliPlain {
				continue
			}
			switch m.tp.Draw("clisymlink", 8) {
			case 7:
				plan.linked[dir+"/"+p] = true
			case 6:
				plan.alias[dir+"/"+p] = true
			}
		}
	}
	if !plan.shared && m.tp.Draw("cliv1", 3) == 2 {
		plan.v1 = true
		plan.workName = tape.Pick(m.tp, "cliworkname", []string{"buf.work.yaml", "buf.work"})
		for range m.ws.Modules {
			plan.modCfg = append(plan.modCfg, tape.Pick(m.tp, "climodcfg", []string{"buf.yaml", "buf.mod"}))
			rooted := m.tp.Draw("clirooted", 2) == 1
			plan.rooted = append(plan.rooted, rooted)
			if rooted {
				m.s.Probe("cli-v1beta1-module-with-two-roots")
			}
		}
		m.s.Probe("cli-v1-workspace")
	}
	// an environment switch of the command: copy the whole input into memory before reading it
	m.cliCopyToMemory = m.tp.Draw("clicopymem", 4) == 3
	plan.inputKind = m.tp.Draw("cliinput", 3)
	if appleDouble || m.cliPlain {
		// (archive extraction drops AppleDouble "._name" entries by design: such a workspace is given as a directory)
		plan.inputKind = 0
	}
	twinDraw := m.tp.Draw("clitwin", 2)
	m.cliModDir = plan.modDir
	m.cliRooted = plan.rooted
	for variant := 0; variant < 2; variant++ {
		root := filepath.Join(m.env.Scratch, "cli", []string{"ws", "wsB"}[variant])
		members := m.materialiseCLIWorkspace(plan, root, variant)
		m.cliInputs[variant], m.cliFlagRoots[variant] = root, root
		if plan.inputKind != 0 {
			if twinDraw == 1 && plan.staleTwin == "" {
				for _, name := range simfs.SortedKeys(members) {
					if strings.HasSuffix(name, ".proto") {
						plan.staleTwin = name
						break
					}
				}
			}
			archive := filepath.Join(m.env.Scratch, "cli", fmt.Sprintf("ws%d", variant))
			archive = m.writeCLIArchive(plan, archive, members)
			m.cliInputs[variant] = archive + "#subdir=inner/tree"
			m.cliFlagRoots[variant] = "" // --path values of an archive input are relative to the sub-directory
		}
	}
	if plan.shared {
		m.s.Probe("cli-modules-sharing-a-directory")
	}
	if plan.inputKind != 0 {
		m.s.Probe("cli-archive-input")
	}
	if len(plan.linked) > 0 {
		m.s.Probe("cli-symlinked-source-file")
	}
	if len(plan.alias) > 0 {
		m.s.Probe("cli-second-name-for-a-file")
	}
	return filepath.Join(m.env.Scratch, "cli", "ws")
}

// materialiseCLIWorkspace writes one copy; it returns the regular content by path relative to root
// (what an archive of the tree contains; second names are not part of archives).
func (m *bsim) materialiseCLIWorkspace(plan *cliPlan, root string, variant int) map[string][]byte {
	members := map[string][]byte{}
	type item struct {
		rel     string
		content []byte
	}
	var items []item
	var y strings.Builder
	y.WriteString("version: v2\nmodules:\n")
	if plan.v1 {
		y.Reset()
		y.WriteString("version: v1\ndirectories:\n")
	}
	for _, mod := range m.ws.Modules {
		dir := plan.modDir[mod.Index]
		if plan.v1 {
			fmt.Fprintf(&y, "  - %s\n", dir)
			cfg := "version: v1\n"
			if plan.rooted[mod.Index] {
				cfg = "version: v1beta1\n"
			}
			if mod.Name != "" {
				cfg += "name: " + mod.Name + "\n"
			}
			if plan.rooted[mod.Index] {
				cfg += "build:\n  roots:\n    - r1\n    - r2\n  excludes:\n    - r1/gen\n    - r2/tmp\n"
				items = append(items, item{dir + "/r1/gen/g" + fmt.Sprint(mod.Index) + ".proto", []byte(fmt.Sprintf("syntax = \"proto3\";\npackage zzgen.m%d;\nmessage Generated {}\n", mod.Index))})
				items = append(items, item{dir + "/r2/tmp/t" + fmt.Sprint(mod.Index) + ".proto", []byte(fmt.Sprintf("syntax = \"proto3\";\npackage zztmp.m%d;\nmessage Scratch {}\n", mod.Index))})
			}
			items = append(items, item{dir + "/" + plan.modCfg[mod.Index], []byte(cfg)})
		} else {
			fmt.Fprintf(&y, "  - path: %s\n", dir)
			if mod.Name != "" {
				fmt.Fprintf(&y, "    name: %s\n", mod.Name)
			}
		}
		tops := map[string]bool{}
		files := mod.ModuleFiles()
		for _, p := range simfs.SortedKeys(files) {
			if strings.HasSuffix(p, ".proto") {
				tops[strings.SplitN(p, "/", 2)[0]] = true
			} else if plan.shared && mod.Index < 2 {
				// LICENSE / README of two modules would collide in the shared directory
				continue
			}
			if plan.v1 && plan.rooted[mod.Index] && strings.HasSuffix(p, ".proto") {
				// below one of the two roots, by top-level directory
				items = append(items, item{dir + "/" + rootOf(p) + "/" + p, files[p]})
				continue
			}
			items = append(items, item{dir + "/" + p, files[p]})
		}
		if plan.shared && mod.Index < 2 {
			y.WriteString("    includes:\n")
			for _, top := range simfs.SortedKeys(tops) {
				fmt.Fprintf(&y, "      - %s/%s\n", dir, top)
			}
		}
	}
	if plan.v1 {
		items = append(items, item{plan.workName, []byte(y.String())})
	} else {
		items = append(items, item{"buf.yaml", []byte(y.String())})
	}
	if variant == 1 {
		for i, j := 0, len(items)-1; i < j; i, j = i+1, j-1 {
			items[i], items[j] = items[j], items[i]
		}
	}
	write := func(full string, content []byte) {
		if err := os.MkdirAll(filepath.Dir(full), 0o755); err != nil {
			panic(err)
		}
		if err := os.WriteFile(full, content, 0o644); err != nil {
			panic(err)
		}
	}
	for _, it := range items {
		members[it.rel] = it.content
		full := filepath.Join(root, filepath.FromSlash(it.rel))
		if err := os.MkdirAll(filepath.Dir(full), 0o755); err != nil {
			panic(err)
		}
		switch {
		case plan.linked[it.rel]:
			// the file lives elsewhere and is linked into the module (the command follows links)
			real := filepath.Join(filepath.Dir(root), "linked-"+filepath.Base(root), strings.ReplaceAll(it.rel, "/", "_"))
			write(real, it.content)
			if err := os.Symlink(real, full); err != nil {
				panic(err)
			}
		case plan.alias[it.rel]:
			// a second name for the same file, sorting after the real one: one file, reported once,
			// under the first name in path order
			alias := filepath.Join(filepath.Dir(full), "zz_second_name_"+filepath.Base(full))
			if variant == 1 {
				if err := os.Symlink(filepath.Base(full), alias); err != nil {
					panic(err)
				}
				write(full, it.content)
			} else {
				write(full, it.content)
				if err := os.Symlink(filepath.Base(full), alias); err != nil {
					panic(err)
				}
			}
		default:
			write(full, it.content)
		}
	}
	return members
}

// writeCLIArchive packs the tree below inner/tree of a tar or zip file. One member may appear twice,
// a stale copy first: the later member wins.
func (m *bsim) writeCLIArchive(plan *cliPlan, base string, members map[string][]byte) string {
	type member struct {
		name string
		data []byte
	}
	var list []member
	list = append(list, member{"elsewhere/unrelated.txt", []byte("not part of the workspace")})
	for _, name := range simfs.SortedKeys(members) {
		if name == plan.staleTwin {
			list = append(list, member{"inner/tree/" + name, []byte("syntax = \"proto3\";\npackage stale.copy;\nmessage Stale {}\n")})
		}
	}
	for _, name := range simfs.SortedKeys(members) {
		list = append(list, member{"inner/tree/" + name, members[name]})
	}
	var buf bytes.Buffer
	path := base + ".tar"
	if plan.inputKind == 1 {
		tw := tar.NewWriter(&buf)
		for _, mb := range list {
			if err := tw.WriteHeader(&tar.Header{Typeflag: tar.TypeReg, Name: mb.name, Size: int64(len(mb.data)), Mode: 0o644}); err != nil {
				panic(err)
			}
			if _, err := tw.Write(mb.data); err != nil {
				panic(err)
			}
		}
		if err := tw.Close(); err != nil {
			panic(err)
		}
	} else {
		path = base + ".zip"
		zw := zip.NewWriter(&buf)
		for _, mb := range list {
			w, err := zw.CreateHeader(&zip.FileHeader{Name: mb.name, Method: zip.Deflate})
			if err != nil {
				panic(err)
			}
			if _, err := w.Write(mb.data); err != nil {
				panic(err)
			}
		}
		if err := zw.Close(); err != nil {
			panic(err)
		}
	}
	if err := os.WriteFile(path, buf.Bytes(), 0o644); err != nil {
		panic(err)
	}
	if plan.staleTwin != "" {
		m.s.Probe("cli-archive-member-twice")
	}
	return path
}

// cliArgs expresses the targeting as flags, in this execution's listing order.
func (m *bsim) cliArgs(root string) []string {
	// --path flags are needed only when something is left out by NOT being named; exclusions alone
	// are given without any --path
	restricted, needPaths := false, false
	for _, mod := range m.ws.Modules {
		if !mod.Targeted || len(mod.TargetPaths) > 0 {
			restricted, needPaths = true, true
		}
		if len(mod.ExcludePaths) > 0 {
			restricted = true
		}
	}
	var flags [][2]string
	if restricted {
		for _, mod := range m.ws.Modules {
			if !mod.Targeted {
				continue
			}
			dir := filepath.Join(m.cliFlagRoots[m.cliVariant], m.cliModDir[mod.Index])
			if len(mod.TargetPaths) == 0 && needPaths {
				// (a module directory itself may not be given as --path: name every top-level directory of its files)
				tops := map[string]bool{}
				for _, f := range mod.Files {
					tops[strings.SplitN(f.Path, "/", 2)[0]] = true
				}
				for _, top := range simfs.SortedKeys(tops) {
					flags = append(flags, [2]string{"--path", filepath.Join(dir, m.cliOnDisk(mod.Index, top))})
				}
			}
			for _, p := range mod.TargetPaths {
				flags = append(flags, [2]string{"--path", filepath.Join(dir, m.cliOnDisk(mod.Index, p))})
			}
			for _, p := range mod.ExcludePaths {
				flags = append(flags, [2]string{"--exclude-path", filepath.Join(dir, m.cliOnDisk(mod.Index, p))})
			}
		}
	}
	labels := make([]string, len(flags))
	for i := range flags {
		labels[i] = fmt.Sprint(i)
	}
	var args []string
	for _, l := range m.permuted("cliflags", labels) {
		var i int
		fmt.Sscan(l, &i)
		args = append(args, flags[i][0], flags[i][1])
	}
	return args
}

// cliEnv is the environment the commands run in.
func (m *bsim) cliEnv() map[string]string {
	env := map[string]string{"HOME": filepath.Join(m.env.Scratch, "cli", "home"), "BUF_CACHE_DIR": filepath.Join(m.env.Scratch, "cli", "cache"), "PATH": ""}
	if m.cliCopyToMemory {
		env["BUF_BETA_COPY_FILES_TO_MEMORY"] = "1"
	}
	return env
}

// cliBuild runs the real `buf build` command in-process on the workspace directory and returns the
// image it wrote.
func (m *bsim) cliBuild(ctx context.Context, root string) (bufimage.Image, []byte, error) {
	out := filepath.Join(m.env.Scratch, "cli", fmt.Sprintf("out%d.binpb", m.counters["cli_builds"]))
	m.counters["cli_builds"]++
	var stdout, stderr bytes.Buffer
	env := m.cliEnv()
	args := append([]string{"buf", "build", m.cliInputs[m.cliVariant], "-o", out}, m.cliArgs(root)...)
	container := app.NewContainer(env, strings.NewReader(""), &stdout, &stderr, args...)
	if err := appcmd.Run(ctx, container, bufcli.NewRootCommand("buf")); err != nil {
		return nil, nil, fmt.Errorf("%w (stderr: %s)", err, strings.ReplaceAll(stderr.String(), m.env.Scratch, "<scratch>"))
	}
	data, err := os.ReadFile(out)
	if err != nil {
		return nil, nil, err
	}
	m.cliLastOut = out
	protoImage := &imagev1.Image{}
	if err := protoencoding.NewWireUnmarshaler(nil).Unmarshal(data, protoImage); err != nil {
		if err2 := proto.Unmarshal(data, protoImage); err2 != nil {
			return nil, nil, err
		}
	}
	image, err := bufimage.NewImageForProto(protoImage)
	if err != nil {
		return nil, nil, err
	}
	return image, data, nil
}

// cliText runs another command of the real CLI on the workspace (same input and path flags as the
// build) and returns what it printed; a non-zero exit because of findings is part of the result.
func (m *bsim) cliText(ctx context.Context, root string, command string, extra ...string) string {
	var stdout, stderr bytes.Buffer
	env := m.cliEnv()
	args := append([]string{"buf", command, m.cliInputs[m.cliVariant]}, m.cliArgs(root)...)
	args = append(args, extra...)
	container := app.NewContainer(env, strings.NewReader(""), &stdout, &stderr, args...)
	err := appcmd.Run(ctx, container, bufcli.NewRootCommand("buf"))
	text := fmt.Sprintf("%s\n--- stderr\n%s\n--- failed=%v", stdout.String(), stderr.String(), err != nil)
	// (the two copies of the workspace differ in nothing but their location)
	for _, loc := range []string{filepath.Join(m.env.Scratch, "cli", "wsB"), filepath.Join(m.env.Scratch, "cli", "ws1"), filepath.Join(m.env.Scratch, "cli", "ws0"), filepath.Join(m.env.Scratch, "cli", "ws")} {
		text = strings.ReplaceAll(text, loc, "<ws>")
	}
	return text
}

// cliPlantedError builds the workspace with the planted error through the real command, giving the
// workspace directory as it is or through a symbolic link to it: the command must fail and name the
// broken file below the path THE USER GAVE, at the position the compiler reports.
func (m *bsim) cliPlantedError(ctx context.Context) {
	f := m.ws.Planted
	m.cliPlain = true
	root := m.writeCLIWorkspace()
	m.cliPlain = false
	input := root
	how := "directory"
	switch m.tp.Draw("cliplantedinput", 3) {
	case 1:
		input = filepath.Join(m.env.Scratch, "cli", "current")
		if err := os.Symlink(root, input); err != nil {
			panic(err)
		}
		how = "link to the directory"
	case 2:
		input = filepath.Join(m.env.Scratch, "cli", "rel-current")
		if err := os.Symlink("ws", input); err != nil {
			panic(err)
		}
		how = "relative link to the directory"
	}
	m.cliVariant = 0
	m.cliInputs[0], m.cliFlagRoots[0] = input, input
	// every diagnostic format names the file by the path the user gave, and the position
	format := tape.Pick(m.tp, "cliplantedformat", []string{"text", "json", "msvs", "junit", "github-actions", "text"})
	var stdout, stderr bytes.Buffer
	args := append([]string{"buf", "build", input}, m.cliArgs(root)...)
	if format != "text" || m.tp.Draw("cliplantedformatflag", 2) == 1 {
		args = append(args, "--error-format", format)
	}
	container := app.NewContainer(m.cliEnv(), strings.NewReader(""), &stdout, &stderr, args...)
	err := appcmd.Run(ctx, container, bufcli.NewRootCommand("buf"))
	text := stderr.String()
	shown := strings.ReplaceAll(text, m.env.Scratch, "<scratch>")
	if err == nil {
		m.violate("planted-error", "cli", "buf build of a workspace with a planted error (%s) in %s succeeded", f.PlantKind, f.Path)
		return
	}
	want := m.refErrors[0]
	external := filepath.Join(input, m.cliModDir[f.Module], m.cliOnDisk(f.Module, want.path))
	var wanted string
	switch format {
	case "text":
		wanted = fmt.Sprintf("%s:%d:%d:", external, want.line, want.col)
	case "json":
		quoted, _ := json.Marshal(external)
		wanted = fmt.Sprintf(`"path":%s,"start_line":%d,"start_column":%d`, quoted, want.line, want.col)
	case "msvs":
		wanted = fmt.Sprintf("%s(%d,%d) : error", external, want.line, want.col)
	case "junit":
		// (XML-escaped; the generated names need no escaping beyond what %s gives for them here)
		wanted = fmt.Sprintf(`name="%s"`, strings.TrimSuffix(xmlEscape(external), ".proto"))
	case "github-actions":
		wanted = fmt.Sprintf("::error file=%s,line=%d,col=%d", external, want.line, want.col)
	}
	found := false
	for _, line := range strings.Split(text, "\n") {
		if (format == "text" && strings.HasPrefix(line, wanted)) || (format != "text" && strings.Contains(line, wanted)) {
			found = true
		}
	}
	if !found {
		m.violate("planted-error", "cli|path-the-user-gave|"+format, "buf build <%s> --error-format %s: no diagnostic with %s; stderr: %s", how, format, strings.ReplaceAll(wanted, m.env.Scratch, "<scratch>"), clipText(shown))
	} else {
		m.s.Probe("planted-error-located-through-the-command-line")
		m.s.Probe("planted-error-format-" + format)
	}
}

func xmlEscape(s string) string {
	var b bytes.Buffer
	_ = xml.EscapeText(&b, []byte(s))
	return b.String()
}

func clipText(s string) string {
	if len(s) > 600 {
		return s[:600] + "..."
	}
	return s
}

// cliRunAfterRun: "run after run" - the same command, the same input, the same output file, at two
// different moments of the (simulated) clock: a compressed image must come out byte-identical. Runs on
// the bubble's main goroutine, so that sleeping advances synctest's clock at once.
func (m *bsim) cliRunAfterRun() {
	suffix := tape.Pick(m.tp, "cligz", []string{".binpb.gz", ".json.gz", ".binpb#compression=gzip", ".binpb.zst", ".txtpb.gz"})
	out := filepath.Join(m.env.Scratch, "cli", "again"+suffix)
	file := strings.SplitN(out, "#", 2)[0]
	var first []byte
	m.s.Unhashed = true
	defer func() { m.s.Unhashed = false }()
	for k := 0; k < 2; k++ {
		if k == 1 {
			time.Sleep(time.Duration(1500+m.tp.Draw("cligap", 3)*86400000) * time.Millisecond)
		}
		m.cliVariant = 0
		var stdout, stderr bytes.Buffer
		args := append([]string{"buf", "build", m.cliInputs[0], "-o", out}, m.cliArgs(m.cliRoot)...)
		container := app.NewContainer(m.cliEnv(), strings.NewReader(""), &stdout, &stderr, args...)
		if err := appcmd.Run(context.Background(), container, bufcli.NewRootCommand("buf")); err != nil {
			m.violate("schedule-independence", "cli-compressed", "buf build -o %s failed: %v (stderr: %s)", "again"+suffix, err, clipText(strings.ReplaceAll(stderr.String(), m.env.Scratch, "<scratch>")))
			return
		}
		data, err := os.ReadFile(file)
		if err != nil {
			panic(err)
		}
		if k == 0 {
			first = data
		} else if !bytes.Equal(first, data) {
			m.violate("output-identical", "run-after-run|cli-image"+strings.SplitN(suffix, "#", 2)[0], "buf build -o %s run twice on the same input, a moment apart on the clock, wrote different bytes: %s", "again"+suffix, firstDiff(string(first), string(data)))
		}
	}
	m.s.Probe("cli-compressed-image-run-after-run")
}

// cliBuildFromImage runs `buf build <image file> --path ... -o <file>` on the image the last cliBuild
// wrote, naming two or three of its targeted files in this execution's listing order.
func (m *bsim) cliBuildFromImage(ctx context.Context) (string, bool, error) {
	targets := append([]string(nil), m.ws.Targets()...)
	sort.Strings(targets)
	if len(targets) < 2 || m.cliLastOut == "" {
		return "", false, nil
	}
	if len(targets) > 3 {
		targets = targets[len(targets)-3:]
	}
	out := m.cliLastOut + ".again.binpb"
	args := []string{"buf", "build", m.cliLastOut, "-o", out}
	for _, p := range m.permuted("imagepaths", targets) {
		args = append(args, "--path", p)
	}
	var stdout, stderr bytes.Buffer
	container := app.NewContainer(m.cliEnv(), strings.NewReader(""), &stdout, &stderr, args...)
	if err := appcmd.Run(ctx, container, bufcli.NewRootCommand("buf")); err != nil {
		return "", false, fmt.Errorf("%w (stderr: %s)", err, strings.ReplaceAll(stderr.String(), m.env.Scratch, "<scratch>"))
	}
	data, err := os.ReadFile(out)
	if err != nil {
		return "", false, err
	}
	m.s.Probe("cli-image-input-with-paths")
	return string(data), true, nil
}

// cliTwoBrokenModules: a workspace in which TWO modules fail to compile (a large one whose broken file
// comes late, a tiny one that fails at once), linted and built several times with different numbers of
// workers: whatever the command prints for it, it prints every time.
func (m *bsim) cliTwoBrokenModules() {
	root := filepath.Join(m.env.Scratch, "cli", "twobroken")
	defer os.RemoveAll(root)
	write := func(rel, content string) {
		full := filepath.Join(root, filepath.FromSlash(rel))
		if err := os.MkdirAll(filepath.Dir(full), 0o755); err != nil {
			panic(err)
		}
		if err := os.WriteFile(full, []byte(content), 0o644); err != nil {
			panic(err)
		}
	}
	n := 20 + m.tp.Draw("twobroken.n", 40)
	write("buf.yaml", "version: v2\nmodules:\n  - path: a\n  - path: b\n")
	for i := 0; i < n; i++ {
		body := fmt.Sprintf("syntax = \"proto3\";\npackage a.p%d;\nmessage M%d {\n  string name = 1;\n", i, i)
		for k := 0; k < 30; k++ {
			body += fmt.Sprintf("  int64 f%d = %d;\n", k, k+2)
		}
		if i == n-1 {
			body += "  DoesNotExist broken = 100;\n"
		}
		write(fmt.Sprintf("a/a/f%03d.proto", i), body+"}\n")
	}
	write("b/b/b.proto", "syntax = \"proto3\";\npackage b;\nmessage B {\n")
	command := tape.Pick(m.tp, "twobroken.cmd", []string{"lint", "build", "lint"})
	var first string
	m.s.Unhashed = true
	defer func() { m.s.Unhashed = false }()
	for k, par := range []int{1, 2, 8, 1, 4, 16} {
		thread.SetParallelism(par)
		var stdout, stderr bytes.Buffer
		container := app.NewContainer(m.cliEnv(), strings.NewReader(""), &stdout, &stderr, "buf", command, root)
		err := appcmd.Run(context.Background(), container, bufcli.NewRootCommand("buf"))
		text := strings.ReplaceAll(fmt.Sprintf("%s\n--- stderr\n%s\n--- failed=%v", stdout.String(), stderr.String(), err != nil), m.env.Scratch, "<scratch>")
		if err == nil {
			m.violate("schedule-independence", "cli-two-broken-modules", "buf %s of a workspace in which two modules do not compile succeeded", command)
			return
		}
		if k == 0 {
			first = text
		} else if text != first {
			m.violate("output-identical", "cli-two-broken-modules|"+command, "buf %s on a workspace with two modules that do not compile printed something else with %d workers than with 1: %s", command, par, firstDiff(first, text))
		}
	}
	m.s.Probe("cli-two-broken-modules")
}

// rootOf: which of the two roots of a v1beta1 module holds the file or directory (by its top-level directory).
func rootOf(p string) string {
	if top := strings.SplitN(p, "/", 2)[0]; len(top)%2 == 1 {
		return "r2"
	}
	return "r1"
}

// cliOnDisk is where a file or directory of a module (by import path) lives below the module's directory.
func (m *bsim) cliOnDisk(mod int, p string) string {
	if mod < len(m.cliRooted) && m.cliRooted[mod] {
		return filepath.Join(rootOf(p), filepath.FromSlash(p))
	}
	return filepath.FromSlash(p)
}
