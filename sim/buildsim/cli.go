package buildsim

import (
	"archive/tar"
	"archive/zip"
	"bytes"
	"context"
	"fmt"
	"os"
	"path/filepath"
	"strings"

	bufcli "github.com/bufbuild/buf/private/buf/cmd/buf"
	"github.com/bufbuild/buf/private/bufpkg/bufimage"
	"github.com/bufbuild/buf/private/pkg/app"
	"github.com/bufbuild/buf/private/pkg/app/appcmd"
	"github.com/bufbuild/buf/private/pkg/protoencoding"
	"github.com/bufbuild/verif/simfs"
	"google.golang.org/protobuf/proto"

	imagev1 "github.com/bufbuild/buf/private/gen/proto/go/buf/alpha/image/v1"
)

// cliUsable says whether the workspace's targeting can be expressed as `buf build <dir>` plus
// --path / --exclude-path flags (a proto-file reference is another kind of input).
func (m *bsim) cliUsable() bool {
	for _, mod := range m.ws.Modules {
		if mod.ProtoFileTarget != "" {
			return false
		}
	}
	return true
}

// cliPlan holds the tape-drawn decisions about the on-disk layout, so that the same workspace can be
// materialised more than once (in different creation orders) without drawing again.
type cliPlan struct {
	shared    bool
	modDir    []string
	linked    map[string]bool // module/path -> the file lives elsewhere and is linked into the module
	alias     map[string]bool // module/path -> a second name (a link, sorting after the real name) for the file
	inputKind int             // 0 directory, 1 tar, 2 zip
	staleTwin string          // archive member that appears twice: a stale copy first, the real one after it
}

// writeCLIWorkspace lays the workspace out on disk as a v2 workspace: buf.yaml at the root, one
// directory per module - or, with three modules, the first two sharing one directory (told apart by
// includes) next to a directory whose name is that directory's plus "-2". Some files live elsewhere
// and are linked in, some have a second name (a link next to them). It is materialised twice: the
// second copy is created in reverse order, links before their targets (directory enumeration order
// follows creation order on some file systems). Executions alternate between the two copies.
func (m *bsim) writeCLIWorkspace() string {
	plan := &cliPlan{linked: map[string]bool{}, alias: map[string]bool{}}
	plan.shared = len(m.ws.Modules) == 3 && m.tp.Draw("clishared", 2) == 1
	appleDouble := false
	for _, mod := range m.ws.Modules {
		dir := fmt.Sprintf("mod%d", mod.Index)
		if plan.shared {
			dir = "shared"
			if mod.Index == 2 {
				dir = "shared-2"
			}
		}
		plan.modDir = append(plan.modDir, dir)
		for _, p := range simfs.SortedKeys(mod.ModuleFiles()) {
			if !strings.HasSuffix(p, ".proto") {
				continue
			}
			if strings.HasPrefix(filepath.Base(p), "._") {
				appleDouble = true
			}
			switch m.tp.Draw("clisymlink", 8) {
			case 7:
				plan.linked[dir+"/"+p] = true
			case 6:
				plan.alias[dir+"/"+p] = true
			}
		}
	}
	plan.inputKind = m.tp.Draw("cliinput", 3)
	if appleDouble {
		// (archive extraction drops AppleDouble "._name" entries by design: such a workspace is given as a directory)
		plan.inputKind = 0
	}
	twinDraw := m.tp.Draw("clitwin", 2)
	m.cliModDir = plan.modDir
	for variant := 0; variant < 2; variant++ {
		root := filepath.Join(m.env.Scratch, "cli", []string{"ws", "wsB"}[variant])
		members := m.materialiseCLIWorkspace(plan, root, variant)
		m.cliInputs[variant], m.cliFlagRoots[variant] = root, root
		if plan.inputKind != 0 {
			if twinDraw == 1 && plan.staleTwin == "" {
				for _, name := range simfs.SortedKeys(members) {
					if strings.HasSuffix(name, ".proto") {
						plan.staleTwin = name
						break
					}
				}
			}
			archive := filepath.Join(m.env.Scratch, "cli", fmt.Sprintf("ws%d", variant))
			archive = m.writeCLIArchive(plan, archive, members)
			m.cliInputs[variant] = archive + "#subdir=inner/tree"
			m.cliFlagRoots[variant] = "" // --path values of an archive input are relative to the sub-directory
		}
	}
	if plan.shared {
		m.s.Probe("cli-modules-sharing-a-directory")
	}
	if plan.inputKind != 0 {
		m.s.Probe("cli-archive-input")
	}
	if len(plan.linked) > 0 {
		m.s.Probe("cli-symlinked-source-file")
	}
	if len(plan.alias) > 0 {
		m.s.Probe("cli-second-name-for-a-file")
	}
	return filepath.Join(m.env.Scratch, "cli", "ws")
}

// materialiseCLIWorkspace writes one copy; it returns the regular content by path relative to root
// (what an archive of the tree contains; second names are not part of archives).
func (m *bsim) materialiseCLIWorkspace(plan *cliPlan, root string, variant int) map[string][]byte {
	members := map[string][]byte{}
	type item struct {
		rel     string
		content []byte
	}
	var items []item
	var y strings.Builder
	y.WriteString("version: v2\nmodules:\n")
	for _, mod := range m.ws.Modules {
		dir := plan.modDir[mod.Index]
		fmt.Fprintf(&y, "  - path: %s\n", dir)
		if mod.Name != "" {
			fmt.Fprintf(&y, "    name: %s\n", mod.Name)
		}
		tops := map[string]bool{}
		files := mod.ModuleFiles()
		for _, p := range simfs.SortedKeys(files) {
			if strings.HasSuffix(p, ".proto") {
				tops[strings.SplitN(p, "/", 2)[0]] = true
			} else if plan.shared && mod.Index < 2 {
				// LICENSE / README of two modules would collide in the shared directory
				continue
			}
			items = append(items, item{dir + "/" + p, files[p]})
		}
		if plan.shared && mod.Index < 2 {
			y.WriteString("    includes:\n")
			for _, top := range simfs.SortedKeys(tops) {
				fmt.Fprintf(&y, "      - %s/%s\n", dir, top)
			}
		}
	}
	items = append(items, item{"buf.yaml", []byte(y.String())})
	if variant == 1 {
		for i, j := 0, len(items)-1; i < j; i, j = i+1, j-1 {
			items[i], items[j] = items[j], items[i]
		}
	}
	write := func(full string, content []byte) {
		if err := os.MkdirAll(filepath.Dir(full), 0o755); err != nil {
			panic(err)
		}
		if err := os.WriteFile(full, content, 0o644); err != nil {
			panic(err)
		}
	}
	for _, it := range items {
		members[it.rel] = it.content
		full := filepath.Join(root, filepath.FromSlash(it.rel))
		if err := os.MkdirAll(filepath.Dir(full), 0o755); err != nil {
			panic(err)
		}
		switch {
		case plan.linked[it.rel]:
			// the file lives elsewhere and is linked into the module (the command follows links)
			real := filepath.Join(filepath.Dir(root), "linked-"+filepath.Base(root), strings.ReplaceAll(it.rel, "/", "_"))
			write(real, it.content)
			if err := os.Symlink(real, full); err != nil {
				panic(err)
			}
		case plan.alias[it.rel]:
			// a second name for the same file, sorting after the real one: one file, reported once,
			// under the first name in path order
			alias := filepath.Join(filepath.Dir(full), "zz_second_name_"+filepath.Base(full))
			if variant == 1 {
				if err := os.Symlink(filepath.Base(full), alias); err != nil {
					panic(err)
				}
				write(full, it.content)
			} else {
				write(full, it.content)
				if err := os.Symlink(filepath.Base(full), alias); err != nil {
					panic(err)
				}
			}
		default:
			write(full, it.content)
		}
	}
	return members
}

// writeCLIArchive packs the tree below inner/tree of a tar or zip file. One member may appear twice,
// a stale copy first: the later member wins.
func (m *bsim) writeCLIArchive(plan *cliPlan, base string, members map[string][]byte) string {
	type member struct {
		name string
		data []byte
	}
	var list []member
	list = append(list, member{"elsewhere/unrelated.txt", []byte("not part of the workspace")})
	for _, name := range simfs.SortedKeys(members) {
		if name == plan.staleTwin {
			list = append(list, member{"inner/tree/" + name, []byte("syntax = \"proto3\";\npackage stale.copy;\nmessage Stale {}\n")})
		}
	}
	for _, name := range simfs.SortedKeys(members) {
		list = append(list, member{"inner/tree/" + name, members[name]})
	}
	var buf bytes.Buffer
	path := base + ".tar"
	if plan.inputKind == 1 {
		tw := tar.NewWriter(&buf)
		for _, mb := range list {
			if err := tw.WriteHeader(&tar.Header{Typeflag: tar.TypeReg, Name: mb.name, Size: int64(len(mb.data)), Mode: 0o644}); err != nil {
				panic(err)
			}
			if _, err := tw.Write(mb.data); err != nil {
				panic(err)
			}
		}
		if err := tw.Close(); err != nil {
			panic(err)
		}
	} else {
		path = base + ".zip"
		zw := zip.NewWriter(&buf)
		for _, mb := range list {
			w, err := zw.CreateHeader(&zip.FileHeader{Name: mb.name, Method: zip.Deflate})
			if err != nil {
				panic(err)
			}
			if _, err := w.Write(mb.data); err != nil {
				panic(err)
			}
		}
		if err := zw.Close(); err != nil {
			panic(err)
		}
	}
	if err := os.WriteFile(path, buf.Bytes(), 0o644); err != nil {
		panic(err)
	}
	if plan.staleTwin != "" {
		m.s.Probe("cli-archive-member-twice")
	}
	return path
}

// cliArgs expresses the targeting as flags, in this execution's listing order.
func (m *bsim) cliArgs(root string) []string {
	// --path flags are needed only when something is left out by NOT being named; exclusions alone
	// are given without any --path
	restricted, needPaths := false, false
	for _, mod := range m.ws.Modules {
		if !mod.Targeted || len(mod.TargetPaths) > 0 {
			restricted, needPaths = true, true
		}
		if len(mod.ExcludePaths) > 0 {
			restricted = true
		}
	}
	var flags [][2]string
	if restricted {
		for _, mod := range m.ws.Modules {
			if !mod.Targeted {
				continue
			}
			dir := filepath.Join(m.cliFlagRoots[m.cliVariant], m.cliModDir[mod.Index])
			if len(mod.TargetPaths) == 0 && needPaths {
				// (a module directory itself may not be given as --path: name every top-level directory of its files)
				tops := map[string]bool{}
				for _, f := range mod.Files {
					tops[strings.SplitN(f.Path, "/", 2)[0]] = true
				}
				for _, top := range simfs.SortedKeys(tops) {
					flags = append(flags, [2]string{"--path", filepath.Join(dir, top)})
				}
			}
			for _, p := range mod.TargetPaths {
				flags = append(flags, [2]string{"--path", filepath.Join(dir, filepath.FromSlash(p))})
			}
			for _, p := range mod.ExcludePaths {
				flags = append(flags, [2]string{"--exclude-path", filepath.Join(dir, filepath.FromSlash(p))})
			}
		}
	}
	labels := make([]string, len(flags))
	for i := range flags {
		labels[i] = fmt.Sprint(i)
	}
	var args []string
	for _, l := range m.permuted("cliflags", labels) {
		var i int
		fmt.Sscan(l, &i)
		args = append(args, flags[i][0], flags[i][1])
	}
	return args
}

// cliBuild runs the real `buf build` command in-process on the workspace directory and returns the
// image it wrote.
func (m *bsim) cliBuild(ctx context.Context, root string) (bufimage.Image, []byte, error) {
	out := filepath.Join(m.env.Scratch, "cli", fmt.Sprintf("out%d.binpb", m.counters["cli_builds"]))
	m.counters["cli_builds"]++
	var stdout, stderr bytes.Buffer
	env := map[string]string{"HOME": filepath.Join(m.env.Scratch, "cli", "home"), "BUF_CACHE_DIR": filepath.Join(m.env.Scratch, "cli", "cache"), "PATH": ""}
	args := append([]string{"buf", "build", m.cliInputs[m.cliVariant], "-o", out}, m.cliArgs(root)...)
	container := app.NewContainer(env, strings.NewReader(""), &stdout, &stderr, args...)
	if err := appcmd.Run(ctx, container, bufcli.NewRootCommand("buf")); err != nil {
		return nil, nil, fmt.Errorf("%w (stderr: %s)", err, strings.ReplaceAll(stderr.String(), m.env.Scratch, "<scratch>"))
	}
	data, err := os.ReadFile(out)
	if err != nil {
		return nil, nil, err
	}
	protoImage := &imagev1.Image{}
	if err := protoencoding.NewWireUnmarshaler(nil).Unmarshal(data, protoImage); err != nil {
		if err2 := proto.Unmarshal(data, protoImage); err2 != nil {
			return nil, nil, err
		}
	}
	image, err := bufimage.NewImageForProto(protoImage)
	if err != nil {
		return nil, nil, err
	}
	return image, data, nil
}

// cliText runs another command of the real CLI on the workspace (same input and path flags as the
// build) and returns what it printed; a non-zero exit because of findings is part of the result.
func (m *bsim) cliText(ctx context.Context, root string, command string, extra ...string) string {
	var stdout, stderr bytes.Buffer
	env := map[string]string{"HOME": filepath.Join(m.env.Scratch, "cli", "home"), "BUF_CACHE_DIR": filepath.Join(m.env.Scratch, "cli", "cache"), "PATH": ""}
	args := append([]string{"buf", command, m.cliInputs[m.cliVariant]}, m.cliArgs(root)...)
	args = append(args, extra...)
	container := app.NewContainer(env, strings.NewReader(""), &stdout, &stderr, args...)
	err := appcmd.Run(ctx, container, bufcli.NewRootCommand("buf"))
	text := fmt.Sprintf("%s\n--- stderr\n%s\n--- failed=%v", stdout.String(), stderr.String(), err != nil)
	// (the two copies of the workspace differ in nothing but their location)
	for _, loc := range []string{filepath.Join(m.env.Scratch, "cli", "wsB"), filepath.Join(m.env.Scratch, "cli", "ws1"), filepath.Join(m.env.Scratch, "cli", "ws0"), filepath.Join(m.env.Scratch, "cli", "ws")} {
		text = strings.ReplaceAll(text, loc, "<ws>")
	}
	return text
}
