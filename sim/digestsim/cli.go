package digestsim

import (
	"archive/tar"
	"archive/zip"
	"bytes"
	"compress/gzip"
	"context"
	"encoding/json"
	"fmt"
	"os"
	"path/filepath"
	"strings"

	bufcli "github.com/bufbuild/buf/private/buf/cmd/buf"
	"github.com/bufbuild/buf/private/pkg/app"
	"github.com/bufbuild/buf/private/pkg/app/appcmd"
	"github.com/bufbuild/verif/simfs"
	"github.com/bufbuild/verif/tape"
)

type depGraphModule struct {
	Name   string           `json:"name"`
	Digest string           `json:"digest"`
	Deps   []depGraphModule `json:"deps"`
}

// workspaceThroughTheCommandLine gives the same v2 workspace to the real command, `buf dep graph
// <input> --format json`, in every form an input can take - the directory, tar / tar.gz / zip archives
// with the workspace in a sub-directory (#subdir or #strip_components), one of its .proto files - and
// compares the digest printed for every module with the reference. names[i] is what the command calls
// module i (its full name, or its directory when it has none).
func (m *dsim) workspaceThroughTheCommandLine(all map[string][]byte, dirs []string, names []string, want func(i int) string) {
	base := filepath.Join(m.env.Scratch, "cli")
	defer os.RemoveAll(base)
	ws := filepath.Join(base, "ws")
	for p, c := range all {
		full := filepath.Join(ws, filepath.FromSlash(p))
		if err := os.MkdirAll(filepath.Dir(full), 0o755); err != nil {
			panic(err)
		}
		if err := os.WriteFile(full, c, 0o644); err != nil {
			panic(err)
		}
	}
	form := tape.Pick(m.tp, "ws.cliform", []string{"dir", "tar-subdir", "targz-subdir", "zip-subdir", "tar-strip", "protofile", "dir", "zip-strip"})
	input := ws
	switch form {
	case "tar-subdir", "targz-subdir", "tar-strip":
		var buf bytes.Buffer
		tw := tar.NewWriter(&buf)
		for _, p := range simfs.SortedKeys(all) {
			if err := tw.WriteHeader(&tar.Header{Typeflag: tar.TypeReg, Name: "inner/tree/" + p, Size: int64(len(all[p])), Mode: 0o644}); err != nil {
				panic(err)
			}
			if _, err := tw.Write(all[p]); err != nil {
				panic(err)
			}
		}
		if err := tw.Close(); err != nil {
			panic(err)
		}
		data, name := buf.Bytes(), "ws.tar"
		if form == "targz-subdir" {
			var gz bytes.Buffer
			zw := gzip.NewWriter(&gz)
			if _, err := zw.Write(data); err != nil {
				panic(err)
			}
			if err := zw.Close(); err != nil {
				panic(err)
			}
			data, name = gz.Bytes(), "ws.tar.gz"
		}
		if err := os.WriteFile(filepath.Join(base, name), data, 0o644); err != nil {
			panic(err)
		}
		input = filepath.Join(base, name) + "#subdir=inner/tree"
		if form == "tar-strip" {
			input = filepath.Join(base, name) + "#strip_components=2"
		}
	case "zip-subdir", "zip-strip":
		var buf bytes.Buffer
		zw := zip.NewWriter(&buf)
		for _, p := range simfs.SortedKeys(all) {
			w, err := zw.CreateHeader(&zip.FileHeader{Name: "inner/tree/" + p, Method: zip.Deflate})
			if err != nil {
				panic(err)
			}
			if _, err := w.Write(all[p]); err != nil {
				panic(err)
			}
		}
		if err := zw.Close(); err != nil {
			panic(err)
		}
		if err := os.WriteFile(filepath.Join(base, "ws.zip"), buf.Bytes(), 0o644); err != nil {
			panic(err)
		}
		input = filepath.Join(base, "ws.zip") + "#subdir=inner/tree"
		if form == "zip-strip" {
			input = filepath.Join(base, "ws.zip") + "#strip_components=2"
		}
	case "protofile":
		var protos []string
		for _, p := range simfs.SortedKeys(all) {
			if strings.HasSuffix(p, ".proto") {
				protos = append(protos, p)
			}
		}
		if len(protos) == 0 {
			return
		}
		input = filepath.Join(ws, filepath.FromSlash(protos[m.tp.Draw("ws.cliproto", len(protos))]))
	}
	var stdout, stderr bytes.Buffer
	env := map[string]string{"HOME": filepath.Join(base, "home"), "BUF_CACHE_DIR": filepath.Join(base, "cache"), "PATH": ""}
	container := app.NewContainer(env, strings.NewReader(""), &stdout, &stderr, "buf", "dep", "graph", input, "--format", "json")
	if err := appcmd.Run(context.Background(), container, bufcli.NewRootCommand("buf")); err != nil {
		m.violate("digest-computable", "cli|"+form, "buf dep graph <%s> --format json failed: %v (stderr: %s)", form, err, strings.ReplaceAll(stderr.String(), m.env.Scratch, "<scratch>"))
		return
	}
	var mods []depGraphModule
	if err := json.Unmarshal(stdout.Bytes(), &mods); err != nil {
		m.violate("digest-computable", "cli|"+form, "buf dep graph <%s> --format json printed something that is not its JSON: %v", form, err)
		return
	}
	got := map[string]string{}
	var walk func(ms []depGraphModule)
	walk = func(ms []depGraphModule) {
		for _, x := range ms {
			got[x.Name] = x.Digest
			walk(x.Deps)
		}
	}
	walk(mods)
	seen := 0
	for i, name := range names {
		d, ok := got[name]
		if !ok {
			continue
		}
		seen++
		if w := want(i); d != w {
			m.violate("digest-equals-published-construction", "cli|"+form, "buf dep graph <%s>: module %d (%s, directory %s) has digest %s, reference %s over its own module files plus inherited LICENSE / doc file", form, i, name, dirs[i], d, w)
		}
	}
	if seen == 0 || (form != "protofile" && seen != len(names)) {
		m.violate("digest-computable", "cli|"+form, "buf dep graph <%s> lists %d of the %d workspace modules (%v)", form, seen, len(names), fmt.Sprint(simfs.SortedKeys(got)))
	}
	m.s.Probe("workspace-through-the-command-line")
	m.s.Probe("cli-input-" + form)
}
