// Package digestsim decides the backend / enumeration-order / read-fault /
// stored-corruption clauses of C08: a module's digest is the same for every
// storage backend and enumeration order, ignores non-module files, module name
// and targeting, reacts to every change of a module file or of a dependency's
// digest, and equals the published construction.
package digestsim

import (
	"bytes"
	"context"
	"crypto/sha3"
	"encoding/hex"
	"fmt"
	"io/fs"
	"os"
	"path/filepath"
	"sort"
	"strings"
	"sync"
	"syscall"

	"github.com/bufbuild/buf/private/buf/buftarget"
	"github.com/bufbuild/buf/private/buf/bufworkspace"
	"github.com/bufbuild/buf/private/bufpkg/bufcas"
	"github.com/bufbuild/buf/private/bufpkg/bufmodule"
	"github.com/bufbuild/buf/private/bufpkg/bufmodule/bufmodulestore"
	"github.com/bufbuild/buf/private/bufpkg/bufmodule/bufmoduletesting"
	"github.com/bufbuild/buf/private/bufpkg/bufparse"
	"github.com/bufbuild/buf/private/bufpkg/bufplugin"
	"github.com/bufbuild/buf/private/pkg/filelock"
	"github.com/bufbuild/buf/private/pkg/slogext"
	"github.com/bufbuild/buf/private/pkg/storage"
	"github.com/bufbuild/buf/private/pkg/storage/storagearchive"
	"github.com/bufbuild/buf/private/pkg/storage/storagemem"
	"github.com/bufbuild/buf/private/pkg/storage/storageos"
	"github.com/bufbuild/buf/private/pkg/thread"
	"github.com/bufbuild/buf/private/pkg/verifhook"
	"github.com/bufbuild/verif/engine"
	"github.com/bufbuild/verif/sched"
	"github.com/bufbuild/verif/simfs"
	"github.com/bufbuild/verif/tape"
	"github.com/google/uuid"
)

// ---- independent reference of the published construction ----

func shake(data []byte) string {
	return hex.EncodeToString(sha3.SumSHAKE256(data, 64))
}

var docOrder = []string{"buf.md", "README.md", "README.markdown"}

func isModuleFile(path string, files map[string][]byte) bool {
	if strings.HasSuffix(path, ".proto") || path == "LICENSE" {
		return true
	}
	for _, d := range docOrder {
		if _, ok := files[d]; ok {
			return path == d // the first doc file that exists is the one
		}
	}
	return false
}

func refManifest(files map[string][]byte) string {
	var paths []string
	for p := range files {
		if isModuleFile(p, files) {
			paths = append(paths, p)
		}
	}
	sort.Strings(paths)
	var b strings.Builder
	for _, p := range paths {
		b.WriteString("shake256:" + shake(files[p]) + "  " + p + "\n")
	}
	return b.String()
}

func refB5(files map[string][]byte, depDigests []string) string {
	filesDigest := "shake256:" + shake([]byte(refManifest(files)))
	deps := append([]string(nil), depDigests...)
	sort.Strings(deps)
	return "b5:" + shake([]byte(strings.Join(append([]string{filesDigest}, deps...), "\n")))
}

// refB4 is the legacy digest: one manifest over the module files and the v1 buf.yaml / buf.lock
// objects (named by their file names), hashed once; dependencies do not enter it.
func refB4(files map[string][]byte, bufYAML, bufLock []byte) string {
	return refB4Named(files, "buf.yaml", bufYAML, bufLock)
}

// refB4Named: the v1 configuration object enters the manifest under the name it had when the module
// was pushed ("buf.mod" for old modules).
func refB4Named(files map[string][]byte, yamlName string, bufYAML, bufLock []byte) string {
	all := map[string][]byte{}
	for p, c := range files {
		if isModuleFile(p, files) {
			all[p] = c
		}
	}
	if bufYAML != nil {
		all[yamlName] = bufYAML
	}
	if bufLock != nil {
		all["buf.lock"] = bufLock
	}
	var paths []string
	for p := range all {
		paths = append(paths, p)
	}
	sort.Strings(paths)
	var b strings.Builder
	for _, p := range paths {
		b.WriteString("shake256:" + shake(all[p]) + "  " + p + "\n")
	}
	return "shake256:" + shake([]byte(b.String()))
}

// ---- workload ----

type mod struct {
	name   string
	commit uuid.UUID
	files  map[string][]byte
	deps   []int
	// v1 object data (enters the b4 digest only)
	bufYAML, bufLock []byte
}

type dsim struct {
	tp       *tape.Tape
	s        *sched.Sim
	env      *engine.Env
	mods     []*mod
	n        int
	counters map[string]int
	lastB4   string
	faults   bool
	frate    int
	fbudget  int
}

func (m *dsim) violate(oracle, site, format string, args ...any) {
	msg := strings.ReplaceAll(fmt.Sprintf(format, args...), m.env.Scratch, "<scratch>")
	m.s.Violate(oracle, "C08|"+oracle+"|"+site, "%s", msg)
}

var oddDirs = []string{"", "pkg", "pkg/v1", ".hidden", "pkg/.internal", "..dots", "back\\slash", "with space", "ünï/cødé", "a.b/c-d_e", "two  spaces", " lead", "trail ", "tab\there", "shake256:ab  x",
	// one name in two Unicode normal forms (precomposed, and base letter + combining mark) and conjoining
	// Hangul jamo: different byte strings are different paths, whatever a file system or archiver thinks
	"\u00e9tude", "e\u0301tude", "\u1100\u1161"}

func (m *dsim) drawModules() {
	n := 1 + m.tp.Draw("d.nmods", 3)
	for i := 0; i < n; i++ {
		md := &mod{name: fmt.Sprintf("buf.build/acme/d%d", i), files: map[string][]byte{}}
		b := m.tp.Bytes("d.commit", 16)
		copy(md.commit[:], b)
		md.commit[15] = byte(i)
		md.commit[6] = (md.commit[6] & 0x0f) | 0x40
		md.commit[8] = (md.commit[8] & 0x3f) | 0x80
		nf := 1 + m.tp.Draw("d.nfiles", 5)
		for j := 0; j < nf; j++ {
			dir := tape.Pick(m.tp, "d.dir", oddDirs)
			p := fmt.Sprintf("d%d_f%d.proto", i, j)
			if dir != "" {
				p = dir + "/" + p
			}
			imp := ""
			if _, vendored := m.mods0Has("google/protobuf/timestamp.proto"); i > 0 && vendored && m.tp.Draw("d.usewkt", 2) == 1 {
				imp = "import \"google/protobuf/timestamp.proto\";\n"
				has := false
				for _, x := range md.deps {
					has = has || x == 0
				}
				if !has {
					md.deps = append(md.deps, 0)
				}
			} else if i > 0 && m.tp.Draw("d.dep", 2) == 1 {
				d := m.tp.Draw("d.depmod", i)
				var first string
				for _, q := range simfs.SortedKeys(m.mods[d].files) {
					if strings.HasSuffix(q, ".proto") {
						first = q
						break
					}
				}
				imp = fmt.Sprintf("import \"%s\";\n", first)
				has := false
				for _, x := range md.deps {
					has = has || x == d
				}
				if !has {
					md.deps = append(md.deps, d)
				}
			}
			body := fmt.Sprintf("syntax = \"proto3\";\npackage d%d.f%d;\n%s// %d\nmessage M { string s = 1; }\n", i, j, imp, m.tp.Draw("d.nonce", 100000))
			if m.tp.Draw("d.empty", 8) == 7 && imp == "" {
				body = ""
			}
			if m.tp.Draw("d.boundary", 6) == 5 {
				// a file whose length is exactly at / just below / just above a copy-buffer size
				want := []int{4096, 8192, 32768, 65536}[m.tp.Draw("d.boundarysize", 4)] + m.tp.Draw("d.boundarydelta", 3) - 1
				for len(body) < want {
					body += "// padding padding padding padding padding padding padding padding\n"
				}
				body = body[:want-1] + "\n"
			}
			md.files[p] = []byte(body)
		}
		// a module may vendor a well-known type; modules importing it then depend on this module
		if i == 0 && n > 1 && m.tp.Draw("d.vendorwkt", 3) == 2 {
			md.files["google/protobuf/timestamp.proto"] = []byte(fmt.Sprintf("syntax = \"proto3\";\npackage google.protobuf;\n// vendored %d\nmessage Timestamp { int64 seconds = 1; int32 nanos = 2; }\n", m.tp.Draw("d.nonce", 1000)))
		}
		if m.tp.Draw("d.v1yaml", 3) != 0 {
			md.bufYAML = []byte(fmt.Sprintf("version: v1\nname: %s\n# %d\n", md.name, m.tp.Draw("d.nonce", 1000)))
			if m.tp.Draw("d.v1yamlempty", 5) == 4 {
				md.bufYAML = []byte{}
			}
		}
		if m.tp.Draw("d.v1lock", 3) != 0 {
			md.bufLock = []byte(fmt.Sprintf("version: v1\n# %d\n", m.tp.Draw("d.nonce", 1000)))
			if m.tp.Draw("d.v1lockempty", 4) == 3 {
				// an existing but empty buf.lock still enters the b4 manifest
				md.bufLock = []byte{}
			}
		}
		for _, extra := range []string{"LICENSE", "buf.md", "README.md", "README.markdown"} {
			if m.tp.Draw("d.extra", 3) == 1 {
				md.files[extra] = []byte(fmt.Sprintf("%s of d%d #%d\n", extra, i, m.tp.Draw("d.nonce", 1000)))
				if m.tp.Draw("d.extraempty", 4) == 3 {
					// an empty LICENSE / documentation file is still that module's file
					md.files[extra] = []byte{}
				}
			}
		}
		for _, junk := range []string{"notes.txt", "pkg/data.yaml", "README.txt", "LICENSE.md", "sub/LICENSE", "sub/buf.md",
			"license", "License", "LICENSE.txt", "readme.md", "Readme.md", "BUF.md", "README", "README.md.bak", "buf.md.txt", "sub/README.md", "a.proto.txt", "proto"} {
			if m.tp.Draw("d.junk", 4) == 1 {
				md.files[junk] = []byte(fmt.Sprintf("junk %d\n", m.tp.Draw("d.nonce", 1000)))
			}
		}
		m.mods = append(m.mods, md)
	}
}

func (m *dsim) mods0Has(path string) ([]byte, bool) {
	if len(m.mods) == 0 {
		return nil, false
	}
	c, ok := m.mods[0].files[path]
	return c, ok
}

// transitive deps
func (m *dsim) allDeps(i int) []int {
	seen := map[int]bool{}
	var visit func(int)
	visit = func(j int) {
		for _, d := range m.mods[j].deps {
			if !seen[d] {
				seen[d] = true
				visit(d)
			}
		}
	}
	visit(i)
	var out []int
	for d := range seen {
		out = append(out, d)
	}
	sort.Ints(out)
	return out
}

func (m *dsim) refDigest(i int, override map[string][]byte) string {
	files := m.mods[i].files
	if override != nil {
		files = override
	}
	var deps []string
	for _, d := range m.allDeps(i) {
		deps = append(deps, m.refDigest(d, nil))
	}
	return refB5(files, deps)
}

// backend materialises files behind a bucket of the given kind.
func (m *dsim) backend(kind string, files map[string][]byte) (storage.ReadBucket, string) {
	ctx := context.Background()
	m.n++
	switch kind {
	case "mem":
		b, err := storagemem.NewReadBucket(files)
		if err != nil {
			panic(err)
		}
		return b, ""
	case "os":
		dir := filepath.Join(m.env.Scratch, fmt.Sprintf("os%d", m.n))
		for p, c := range files {
			full := filepath.Join(dir, filepath.FromSlash(p))
			_ = os.MkdirAll(filepath.Dir(full), 0o755)
			if err := os.WriteFile(full, c, 0o644); err != nil {
				panic(err)
			}
		}
		_ = os.MkdirAll(dir, 0o755)
		b, err := storageos.NewProvider().NewReadWriteBucket(dir)
		if err != nil {
			panic(err)
		}
		return b, dir
	case "oslink":
		// a directory read with symbolic links followed (what the command line does): every top-level
		// directory of the module is a link to a link to the real directory elsewhere, and top-level
		// files are links to links to the real file
		dir := filepath.Join(m.env.Scratch, fmt.Sprintf("oslink%d", m.n))
		store := filepath.Join(m.env.Scratch, fmt.Sprintf("oslink%d-store", m.n))
		_ = os.MkdirAll(dir, 0o755)
		_ = os.MkdirAll(store, 0o755)
		linked := map[string]bool{}
		for p, c := range files {
			top := strings.SplitN(p, "/", 2)[0]
			real := filepath.Join(store, "real-"+top)
			if top != p {
				real = filepath.Join(store, "real-"+top, filepath.FromSlash(strings.SplitN(p, "/", 2)[1]))
			}
			_ = os.MkdirAll(filepath.Dir(real), 0o755)
			if err := os.WriteFile(real, c, 0o644); err != nil {
				panic(err)
			}
			if !linked[top] {
				linked[top] = true
				// dir/<top> -> store/current-<top> -> real-<top>
				if err := os.Symlink("real-"+top, filepath.Join(store, "current-"+top)); err != nil {
					panic(err)
				}
				if err := os.Symlink(filepath.Join(store, "current-"+top), filepath.Join(dir, top)); err != nil {
					panic(err)
				}
			}
		}
		b, err := storageos.NewProvider(storageos.ProviderWithSymlinks()).NewReadWriteBucket(dir, storageos.ReadWriteBucketWithSymlinksIfSupported())
		if err != nil {
			panic(err)
		}
		m.s.Probe("chained-symlinks")
		return b, dir
	case "memsub", "ossub":
		// the module is a sub directory "mod" of a bigger bucket; siblings whose names extend "mod"
		// with a character that sorts below '/' must not disturb the walk
		big := map[string][]byte{
			"mod-gen/x.proto":  []byte("syntax = \"proto3\";\npackage gen;\n"),
			"mod.md":           []byte("not the module's doc file\n"),
			"mod gen/y.proto":  []byte("syntax = \"proto3\";\npackage gen2;\n"),
			"modx/z.proto":     []byte("syntax = \"proto3\";\npackage gen3;\n"),
			"LICENSE":          []byte("outer license\n"),
			"aaa/before.proto": []byte("syntax = \"proto3\";\npackage before;\n"),
		}
		for p, c := range files {
			big["mod/"+p] = c
		}
		inner := "mem"
		if kind == "ossub" {
			inner = "os"
		}
		b, dir := m.backend(inner, big)
		return storage.MapReadBucket(b, storage.MapOnPrefix("mod")), dir
	case "tar", "zip":
		src, _ := storagemem.NewReadBucket(files)
		var buf bytes.Buffer
		out := storagemem.NewReadWriteBucket()
		if kind == "tar" {
			if err := storagearchive.Tar(ctx, src, &buf); err != nil {
				panic(err)
			}
			if err := storagearchive.Untar(ctx, bytes.NewReader(buf.Bytes()), out); err != nil {
				panic(err)
			}
		} else {
			if err := storagearchive.Zip(ctx, src, &buf, true); err != nil {
				panic(err)
			}
			if err := storagearchive.Unzip(ctx, bytes.NewReader(buf.Bytes()), int64(buf.Len()), out); err != nil {
				panic(err)
			}
		}
		return out, ""
	}
	panic(kind)
}

type cfg struct {
	backend  string
	permute  bool
	named    bool
	targeted bool
	permMods bool
}

func (c cfg) String() string {
	return fmt.Sprintf("%s perm=%v named=%v targeted=%v permmods=%v", c.backend, c.permute, c.named, c.targeted, c.permMods)
}

// digests builds a module set under a configuration and returns each module's b5 digest (or error).
func (m *dsim) digests(ctx context.Context, c cfg, override map[int]map[string][]byte) ([]string, error) {
	builder := bufmodule.NewModuleSetBuilder(ctx, slogext.NopLogger, bufmodule.NopModuleDataProvider, bufmodule.NopCommitProvider)
	order := make([]int, len(m.mods))
	for i := range order {
		order[i] = i
	}
	if c.permMods {
		order = m.tp.Perm("d.modorder", len(order))
	}
	for _, i := range order {
		md := m.mods[i]
		files := md.files
		if o, ok := override[i]; ok {
			files = o
		}
		kind := "mem"
		if i == len(m.mods)-1 {
			kind = c.backend
		}
		raw, _ := m.backend(kind, files)
		rw, ok := raw.(storage.ReadWriteBucket)
		if !ok {
			// a read-only bucket (memory, or a mapped view): the wrapper sits directly on top of it
			rw = simfs.ReadOnly(raw)
		}
		bucket := &simfs.Bucket{S: m.s, U: rw, Name: fmt.Sprintf("d%d", i), PermuteWalk: c.permute, YieldReads: m.faults}
		var opts []bufmodule.LocalModuleOption
		// dependency modules keep their names: the property is about the digested module
		if c.named || i != len(m.mods)-1 {
			fn, err := bufparse.ParseFullName(md.name)
			if err != nil {
				panic(err)
			}
			opts = append(opts, bufmodule.LocalModuleWithFullNameAndCommitID(fn, md.commit))
		}
		// dependency modules are always targeted; a lone module has to be (a module set needs one target)
		if md.bufYAML != nil {
			od, err := bufmodule.NewObjectData("buf.yaml", md.bufYAML)
			if err != nil {
				panic(err)
			}
			opts = append(opts, bufmodule.LocalModuleWithV1Beta1OrV1BufYAMLObjectData(od))
		}
		if md.bufLock != nil {
			od, err := bufmodule.NewObjectData("buf.lock", md.bufLock)
			if err != nil {
				panic(err)
			}
			opts = append(opts, bufmodule.LocalModuleWithV1Beta1OrV1BufLockObjectData(od))
		}
		builder.AddLocalModule(bucket, fmt.Sprintf("bucket-%d", i), c.targeted || i != len(m.mods)-1 || len(m.mods) == 1, opts...)
	}
	moduleSet, err := builder.Build()
	if err != nil {
		return nil, err
	}
	// a digest is a function of content: whatever else was asked of the module set first
	// (dependency graph, direct dependencies, file listing) must not change it
	switch m.tp.Draw("d.precall", 4) {
	case 1:
		if _, err := bufmodule.ModuleSetToDAG(moduleSet); err != nil {
			return nil, err
		}
		m.s.Probe("digest-after-dependency-graph")
	case 2:
		for _, mod := range moduleSet.Modules() {
			if _, err := bufmodule.ModuleDirectModuleDeps(mod); err != nil {
				return nil, err
			}
			if _, err := mod.ModuleDeps(); err != nil {
				return nil, err
			}
		}
		m.s.Probe("digest-after-direct-deps")
	case 3:
		for _, mod := range moduleSet.Modules() {
			if err := mod.WalkFileInfos(ctx, func(bufmodule.FileInfo) error { return nil }); err != nil {
				return nil, err
			}
		}
	}
	out := make([]string, len(m.mods))
	for _, mod := range moduleSet.Modules() {
		var idx int
		if _, err := fmt.Sscanf(mod.BucketID(), "bucket-%d", &idx); err != nil {
			return nil, fmt.Errorf("harness: bucket id %q", mod.BucketID())
		}
		d, err := mod.Digest(bufmodule.DigestTypeB5)
		if err != nil {
			return nil, err
		}
		out[idx] = d.String()
		if idx == len(m.mods)-1 {
			d4, err := mod.Digest(bufmodule.DigestTypeB4)
			if err != nil {
				return nil, err
			}
			m.lastB4 = d4.String()
		}
	}
	return out, nil
}

type policy struct{ m *dsim }

func (p *policy) Decide(s *sched.Sim, op sched.Op) sched.Decision {
	m := p.m
	if m.faults && op.Kind == "read" && s.Tape.Draw("shortread?", 4) == 3 {
		// not a failure: a reader may hand out fewer bytes than asked for
		return sched.Decision{Fault: "short-read", Arg: s.Tape.Draw("shortreadn", 4096)}
	}
	if !m.faults || m.fbudget == 0 {
		return sched.Decision{}
	}
	var kinds []string
	switch op.Kind {
	case "get":
		kinds = []string{"get-err"}
	case "walk":
		kinds = []string{"walk-err"}
	case "read":
		kinds = []string{"read-err"}
	}
	if len(kinds) == 0 {
		return sched.Decision{}
	}
	v := s.Tape.Draw("fault?", m.frate)
	if v == 0 || v > len(kinds) {
		return sched.Decision{}
	}
	m.fbudget--
	return sched.Decision{Fault: kinds[v-1]}
}

func (m *dsim) exec(f func(ctx context.Context)) {
	m.s.ResetEpoch()
	m.counters["executions"]++
	proc := m.s.Proc(fmt.Sprintf("x%d", m.counters["executions"]))
	m.s.Spawn(proc, f)
	m.s.Run()
}

// Run is one simulated case.
func Run(tp *tape.Tape, env *engine.Env) *engine.Outcome {
	s := sched.New(tp)
	s.KeepTrace = env.KeepTrace
	s.Progress = env.Progress
	s.MaxSteps = 50000
	hooks := simfs.NewHooks(s)
	verifhook.SetHandler(hooks)
	defer verifhook.SetHandler(nil)
	m := &dsim{tp: tp, s: s, env: env, counters: map[string]int{}}
	s.Policy = &policy{m: m}
	thread.SetParallelism(1 + tp.Draw("par", 4))
	m.drawModules()
	main := len(m.mods) - 1
	ref := make([]string, len(m.mods))
	for i := range m.mods {
		ref[i] = m.refDigest(i, nil)
	}
	s.Event("case mods=%d files=%v", len(m.mods), simfs.SortedKeys(m.mods[main].files))

	backends := []string{"mem", "os", "tar", "zip", "memsub", "ossub", "oslink"}
	nconf := 3 + tp.Draw("nconf", 4)
	kinds := map[string]struct{}{}
	for k := 0; k < nconf; k++ {
		c := cfg{backend: backends[(k+tp.Draw("backend", 7))%7], permute: tp.Draw("permute", 2) == 1, named: tp.Draw("named", 2) == 1,
			targeted: tp.Draw("targeted", 2) == 1, permMods: tp.Draw("permmods", 2) == 1}
		m.faults = tp.Draw("faulty", 4) == 3
		if m.faults {
			m.frate = tape.Pick(tp, "frate", []int{8, 4, 16})
			m.fbudget = 1
		}
		var got []string
		var err error
		fired, short := totalFired(s), s.Faults["short-read"]
		m.exec(func(ctx context.Context) { got, err = m.digests(ctx, c, nil) })
		// (a short read is legal reader behaviour, not a failure)
		fired = totalFired(s) - fired - (s.Faults["short-read"] - short)
		kinds[c.backend] = struct{}{}
		s.Event("config %s faults=%v fired=%d err=%v", c, m.faults, fired, err != nil)
		if err != nil {
			if fired == 0 {
				m.violate("digest-computable", "config", "digest failed without any fault under %s: %v", c, err)
			} else {
				s.Probe("digest-failed-under-fault")
			}
			continue
		}
		if want4 := refB4(m.mods[main].files, m.mods[main].bufYAML, m.mods[main].bufLock); m.lastB4 != want4 {
			m.violate("digest-equals-published-construction", "b4|"+c.backend, "module %d under %s (faults fired: %d): b4 digest %s, reference %s", main, c, fired, m.lastB4, want4)
		}
		for i := range m.mods {
			if got[i] != ref[i] {
				site := "backend|" + c.backend
				if fired > 0 {
					site = "read-fault"
				}
				m.violate("digest-equals-published-construction", site,
					"module %d under %s (faults fired: %d): digest %s, reference construction %s", i, c, fired, got[i], ref[i])
			}
		}
	}
	m.faults = false

	// manifest text parses back to an equal manifest
	{
		raw, _ := m.backend("mem", m.mods[main].files)
		fileSet, err := bufcas.NewFileSetForBucket(context.Background(), raw)
		if err != nil {
			m.violate("manifest-canonical", "fileset", "NewFileSetForBucket: %v", err)
		} else {
			text := fileSet.Manifest().String()
			parsed, err := bufcas.ParseManifest(text)
			if err != nil {
				m.violate("manifest-canonical", "parse", "canonical manifest text does not parse: %v", err)
			} else if parsed.String() != text {
				m.violate("manifest-canonical", "roundtrip", "manifest text changes when parsed and printed again")
			}
			// every file listed, sorted by path, with the published line format
			all := map[string][]byte{}
			for p, c := range m.mods[main].files {
				all[p] = c
			}
			var lines []string
			for _, p := range simfs.SortedKeys(all) {
				lines = append(lines, "shake256:"+shake(all[p])+"  "+p+"\n")
			}
			if strings.Join(lines, "") != text {
				m.violate("manifest-canonical", "format", "manifest text differs from the published line format")
			}
		}
	}

	// a remote module whose recorded dependency commit differs from what the module set holds
	if tp.Draw("remotepins", 3) == 2 {
		m.remotePinnedDeps()
	}

	// a remote module without declared dependencies that imports a well-known type some module of the set vendors
	if tp.Draw("remoteleaf", 4) == 3 {
		m.remoteLeafImportingVendoredWKT()
	}

	// the same module objects asked by several goroutines at once
	if tp.Draw("concurrent", 2) == 1 {
		m.concurrentDigests(ref)
	}

	// a local v2 workspace as a backend (modules in sub-directories, LICENSE / doc file inheritance)
	if tp.Draw("wsbackend", 2) == 1 {
		m.workspaceBackend()
	}

	// the module cache as a backend: storing and loading verifies the pinned digest
	for _, tarLayout := range []bool{false, true} {
		if tp.Draw("cachebackend", 2) == 0 {
			continue
		}
		m.cacheRoundTrip(main, ref, tarLayout)
		m.cacheRoundTripB4(main, tarLayout)
	}

	// stored-corruption sensitivity and non-module-file insensitivity
	nmut := 2 + tp.Draw("nmut", 3)
	for k := 0; k < nmut; k++ {
		files := map[string][]byte{}
		for p, c := range m.mods[main].files {
			files[p] = c
		}
		paths := simfs.SortedKeys(files)
		victim := paths[tp.Draw("victim", len(paths))]
		wasModule := isModuleFile(victim, files)
		op := tape.Pick(tp, "mutop", []string{"flip", "truncate", "delete", "rename", "add-proto", "add-junk", "append"})
		switch op {
		case "flip":
			if len(files[victim]) == 0 {
				continue
			}
			// keep the import statements intact: the dependency set is part of the reference
			lo := afterImports(files[victim])
			if lo >= len(files[victim]) {
				continue
			}
			c := append([]byte(nil), files[victim]...)
			pos := lo + tp.Draw("flippos", len(c)-lo)
			c[pos] ^= byte(1 + tp.Draw("flipbit", 255))
			files[victim] = c
		case "truncate":
			lo := afterImports(files[victim])
			if lo >= len(files[victim]) {
				continue
			}
			files[victim] = files[victim][:lo+tp.Draw("trunc", len(files[victim])-lo)]
		case "append":
			files[victim] = append(append([]byte(nil), files[victim]...), '\n')
		case "delete":
			if strings.HasSuffix(victim, ".proto") && countProto(files) == 1 {
				continue
			}
			delete(files, victim)
		case "rename":
			if strings.HasSuffix(victim, ".proto") {
				files["renamed_"+filepath.Base(victim)] = files[victim]
			} else {
				files[victim+".bak"] = files[victim]
			}
			delete(files, victim)
		case "add-proto":
			files["added/extra.proto"] = []byte("syntax = \"proto3\";\npackage added;\n")
			wasModule = true
		case "add-junk":
			files["added/extra.txt"] = []byte("junk\n")
			wasModule = false
		}
		// imports of other modules must keep resolving: a mutation that breaks import lines is skipped
		if brokeImports(m.mods[main].files, files) {
			continue
		}
		want := m.refDigest(main, files)
		changed := want != ref[main]
		c := cfg{backend: backends[tp.Draw("mbackend", 6)], permute: tp.Draw("mpermute", 2) == 1, named: true, targeted: true}
		var got []string
		var err error
		m.exec(func(ctx context.Context) { got, err = m.digests(ctx, c, map[int]map[string][]byte{main: files}) })
		s.Event("mutation %s of %s (module file: %v) under %s", op, victim, wasModule, c)
		if err != nil {
			if strings.HasSuffix(victim, ".proto") && (op == "flip" || op == "truncate") {
				// the digest of a local module needs its import statements: a mutilated file may not scan
				s.Probe("mutation-made-file-unscannable")
				continue
			}
			m.violate("digest-computable", "mutation", "digest failed after %s of %s: %v", op, victim, err)
			continue
		}
		if got[main] != want {
			m.violate("digest-equals-published-construction", "mutation|"+op, "after %s of %s under %s: digest %s, reference %s", op, victim, c, got[main], want)
		}
		if changed && got[main] == ref[main] {
			m.violate("digest-sensitive", op, "%s of module file %s did not change the digest", op, victim)
		}
		if !changed && got[main] != ref[main] {
			m.violate("digest-insensitive-to-non-module-files", op, "%s of non-module file %s changed the digest", op, victim)
		}
		if changed {
			s.Probe("mutation-changed-digest")
		} else {
			s.Probe("mutation-left-digest")
		}
	}

	// a change in a dependency changes the dependent's digest
	if len(m.mods[main].deps) > 0 && tp.Draw("depmut", 2) == 1 {
		d := m.mods[main].deps[0]
		files := map[string][]byte{}
		for p, c := range m.mods[d].files {
			files[p] = c
		}
		for _, p := range simfs.SortedKeys(files) {
			if strings.HasSuffix(p, ".proto") {
				files[p] = append(append([]byte(nil), files[p]...), []byte("// changed\n")...)
				break
			}
		}
		var got []string
		var err error
		m.exec(func(ctx context.Context) {
			got, err = m.digests(ctx, cfg{backend: "mem", named: true, targeted: true}, map[int]map[string][]byte{d: files})
		})
		if err == nil && got[main] == ref[main] {
			m.violate("digest-sensitive", "dependency", "changing a file of dependency %d did not change the digest of module %d", d, main)
		} else if err == nil {
			s.Probe("dependency-change-propagated")
		}
	}
	s.Drain()
	out := engine.FromSim(s)
	out.Counters = m.counters
	out.Nontrivial = true
	var ks []string
	for k := range kinds {
		ks = append(ks, k)
	}
	sort.Strings(ks)
	out.Sample = map[string]any{"modules": len(m.mods), "files": simfs.SortedKeys(m.mods[main].files), "backends": ks, "reference_digest": ref[main], "executions": m.counters["executions"]}
	return out
}

// afterImports returns the offset just after the last import statement (0 if none).
func afterImports(content []byte) int {
	i := bytes.LastIndex(content, []byte("import \""))
	if i < 0 {
		return 0
	}
	j := bytes.IndexByte(content[i:], '\n')
	if j < 0 {
		return len(content)
	}
	return i + j + 1
}

func countProto(files map[string][]byte) int {
	n := 0
	for p := range files {
		if strings.HasSuffix(p, ".proto") {
			n++
		}
	}
	return n
}

func importLines(files map[string][]byte) string {
	var out []string
	for _, p := range simfs.SortedKeys(files) {
		if !strings.HasSuffix(p, ".proto") {
			continue
		}
		for _, l := range strings.Split(string(files[p]), "\n") {
			if strings.HasPrefix(l, "import ") {
				out = append(out, l)
			}
		}
	}
	sort.Strings(out)
	return strings.Join(out, "|")
}

func brokeImports(before, after map[string][]byte) bool {
	return importLines(before) != importLines(after)
}

func totalFired(s *sched.Sim) int {
	n := 0
	for _, v := range s.Faults {
		n += v
	}
	return n
}

// byCommit is a registry that serves several commits of one module name (each from its own
// in-memory provider).
type byCommit map[uuid.UUID]bufmoduletesting.OmniProvider

func (r byCommit) find(id uuid.UUID) (bufmoduletesting.OmniProvider, error) {
	p, ok := r[id]
	if !ok {
		return nil, fmt.Errorf("no such commit %s", id)
	}
	return p, nil
}

func (r byCommit) GetModuleDatasForModuleKeys(ctx context.Context, keys []bufmodule.ModuleKey) ([]bufmodule.ModuleData, error) {
	var out []bufmodule.ModuleData
	for _, k := range keys {
		p, err := r.find(k.CommitID())
		if err != nil {
			return nil, err
		}
		ds, err := p.GetModuleDatasForModuleKeys(ctx, []bufmodule.ModuleKey{k})
		if err != nil {
			return nil, err
		}
		out = append(out, ds...)
	}
	return out, nil
}

func (r byCommit) GetCommitsForModuleKeys(ctx context.Context, keys []bufmodule.ModuleKey) ([]bufmodule.Commit, error) {
	var out []bufmodule.Commit
	for _, k := range keys {
		p, err := r.find(k.CommitID())
		if err != nil {
			return nil, err
		}
		cs, err := p.GetCommitsForModuleKeys(ctx, []bufmodule.ModuleKey{k})
		if err != nil {
			return nil, err
		}
		out = append(out, cs...)
	}
	return out, nil
}

func (r byCommit) GetCommitsForCommitKeys(ctx context.Context, keys []bufmodule.CommitKey) ([]bufmodule.Commit, error) {
	var out []bufmodule.Commit
	for _, k := range keys {
		p, err := r.find(k.CommitID())
		if err != nil {
			return nil, err
		}
		cs, err := p.GetCommitsForCommitKeys(ctx, []bufmodule.CommitKey{k})
		if err != nil {
			return nil, err
		}
		out = append(out, cs...)
	}
	return out, nil
}

// remotePinnedDeps: a remote module R was published against commit C1 of its dependency A; the
// module set being built holds a NEWER commit C2 of A (after a dependency update) and, sometimes, a
// local module as well. R's digest is a function of R's files and of the digest of A at C1 - what else
// the set holds must not matter. The recorded dependency keys carry the legacy digest type (a v1 lock
// file) in some runs, so that they have to be converted first.
func (m *dsim) remotePinnedDeps() {
	ctx := context.Background()
	commit := func(tag byte) uuid.UUID {
		var id uuid.UUID
		copy(id[:], m.tp.Bytes("rp.commit", 16))
		id[15] = tag
		id[6] = (id[6] & 0x0f) | 0x40
		id[8] = (id[8] & 0x3f) | 0x80
		return id
	}
	c1, c2, cr := commit(1), commit(2), commit(3)
	filesA1 := map[string][]byte{"dep/a.proto": []byte(fmt.Sprintf("syntax = \"proto3\";\npackage dep;\n// first %d\nmessage A { string s = 1; }\n", m.tp.Draw("d.nonce", 1000)))}
	filesA2 := map[string][]byte{"dep/a.proto": []byte(fmt.Sprintf("syntax = \"proto3\";\npackage dep;\n// second %d\nmessage A { string s = 1; int32 n = 2; }\n", m.tp.Draw("d.nonce", 1000)))}
	filesR := map[string][]byte{"r/r.proto": []byte(fmt.Sprintf("syntax = \"proto3\";\npackage r;\nimport \"dep/a.proto\";\n// %d\nmessage R { dep.A a = 1; }\n", m.tp.Draw("d.nonce", 1000)))}
	p1, err := bufmoduletesting.NewOmniProvider(
		bufmoduletesting.ModuleData{Name: "buf.build/acme/dep", CommitID: c1, PathToData: filesA1},
		bufmoduletesting.ModuleData{Name: "buf.build/acme/r", CommitID: cr, PathToData: filesR},
	)
	if err != nil {
		panic(err)
	}
	p2, err := bufmoduletesting.NewOmniProvider(bufmoduletesting.ModuleData{Name: "buf.build/acme/dep", CommitID: c2, PathToData: filesA2})
	if err != nil {
		panic(err)
	}
	registry := byCommit{c1: p1, cr: p1, c2: p2}
	digestType := bufmodule.DigestTypeB5
	if m.tp.Draw("rp.b4", 2) == 1 {
		digestType = bufmodule.DigestTypeB4
	}
	keyOf := func(p bufmoduletesting.OmniProvider, name string) bufmodule.ModuleKey {
		fn, err := bufparse.ParseFullName(name)
		if err != nil {
			panic(err)
		}
		ref, err := bufparse.NewRef(fn.Registry(), fn.Owner(), fn.Name(), "")
		if err != nil {
			panic(err)
		}
		keys, err := p.GetModuleKeysForModuleRefs(ctx, []bufparse.Ref{ref}, digestType)
		if err != nil {
			panic(err)
		}
		return keys[0]
	}
	// sometimes the commit provider no longer knows the commits (not-exist): the legacy keys cannot be
	// converted then, and the digest may fail - it may not quietly be computed from what the set holds
	var commits bufmodule.CommitProvider = registry
	forgetful := digestType == bufmodule.DigestTypeB4 && m.tp.Draw("rp.forgetful", 3) == 2
	if forgetful {
		commits = bufmodule.NopCommitProvider
		m.s.Probe("commit-provider-without-the-pinned-commits")
	}
	builder := bufmodule.NewModuleSetBuilder(ctx, slogext.NopLogger, registry, commits)
	builder.AddRemoteModule(keyOf(p1, "buf.build/acme/r"), true)
	builder.AddRemoteModule(keyOf(p2, "buf.build/acme/dep"), false)
	if m.tp.Draw("rp.local", 2) == 1 {
		app, err := storagemem.NewReadBucket(map[string][]byte{"app/app.proto": []byte("syntax = \"proto3\";\npackage app;\nimport \"r/r.proto\";\nmessage App { r.R r = 1; }\n")})
		if err != nil {
			panic(err)
		}
		builder.AddLocalModule(app, "app", true)
	}
	moduleSet, err := builder.Build()
	if err != nil {
		m.violate("digest-computable", "remote-pins", "module set with a remote module and a newer commit of its dependency cannot be built: %v", err)
		return
	}
	want := refB5(filesR, []string{refB5(filesA1, nil)})
	for _, mod := range moduleSet.Modules() {
		if mod.FullName() == nil || mod.FullName().String() != "buf.build/acme/r" {
			continue
		}
		got, err := mod.Digest(bufmodule.DigestTypeB5)
		if err != nil && forgetful {
			m.s.Probe("unconvertible-dependency-keys-reported")
			return
		}
		if err != nil {
			m.violate("digest-computable", "remote-pins", "digest of the remote module failed (recorded dependency keys: %v): %v", digestType, err)
			return
		}
		if got.String() != want {
			m.violate("digest-equals-published-construction", "remote-pins", "remote module published against commit 1 of its dependency, module set holds commit 2 (recorded keys: %v): digest %s, reference over its files and the digest of commit 1 is %s", digestType, got.String(), want)
		}
		m.s.Probe("remote-module-with-pinned-dependency")
	}
}

// remoteLeafImportingVendoredWKT: well-known-type imports need not be declared as dependencies, so a
// remote module GEO whose commit declares none may still import google/protobuf/timestamp.proto. When a
// module W of the set vendors that file, GEO depends on W inside this set, and so does - transitively -
// the local module APP that imports GEO only. APP's digest is its files' digest plus the digests of GEO
// and W; it changes when W's content changes.
func (m *dsim) remoteLeafImportingVendoredWKT() {
	ctx := context.Background()
	commit := func(tag byte) uuid.UUID {
		var id uuid.UUID
		copy(id[:], m.tp.Bytes("rl.commit", 16))
		id[15] = tag
		id[6] = (id[6] & 0x0f) | 0x40
		id[8] = (id[8] & 0x3f) | 0x80
		return id
	}
	cg, cw := commit(1), commit(2)
	filesGeo := map[string][]byte{"geo/geo.proto": []byte(fmt.Sprintf("syntax = \"proto3\";\npackage geo;\nimport \"google/protobuf/timestamp.proto\";\n// %d\nmessage Point { google.protobuf.Timestamp at = 1; }\n", m.tp.Draw("d.nonce", 1000)))}
	filesApp := map[string][]byte{"app/app.proto": []byte("syntax = \"proto3\";\npackage app;\nimport \"geo/geo.proto\";\nmessage App { geo.Point p = 1; }\n")}
	wkt := func(nonce int) map[string][]byte {
		return map[string][]byte{"google/protobuf/timestamp.proto": []byte(fmt.Sprintf("syntax = \"proto3\";\npackage google.protobuf;\n// vendored %d\nmessage Timestamp { int64 seconds = 1; int32 nanos = 2; }\n", nonce))}
	}
	nonce := m.tp.Draw("d.nonce", 1000)
	wRemote := m.tp.Draw("rl.wremote", 2) == 1
	digestOfApp := func(filesW map[string][]byte) (string, bool) {
		pg, err := bufmoduletesting.NewOmniProvider(bufmoduletesting.ModuleData{Name: "buf.build/acme/geo", CommitID: cg, PathToData: filesGeo})
		if err != nil {
			panic(err)
		}
		pw, err := bufmoduletesting.NewOmniProvider(bufmoduletesting.ModuleData{Name: "buf.build/acme/wkt", CommitID: cw, PathToData: filesW})
		if err != nil {
			panic(err)
		}
		registry := byCommit{cg: pg, cw: pw}
		keyOf := func(p bufmoduletesting.OmniProvider, name string) bufmodule.ModuleKey {
			fn, err := bufparse.ParseFullName(name)
			if err != nil {
				panic(err)
			}
			ref, err := bufparse.NewRef(fn.Registry(), fn.Owner(), fn.Name(), "")
			if err != nil {
				panic(err)
			}
			keys, err := p.GetModuleKeysForModuleRefs(ctx, []bufparse.Ref{ref}, bufmodule.DigestTypeB5)
			if err != nil {
				panic(err)
			}
			return keys[0]
		}
		builder := bufmodule.NewModuleSetBuilder(ctx, slogext.NopLogger, registry, registry)
		app, err := storagemem.NewReadBucket(filesApp)
		if err != nil {
			panic(err)
		}
		builder.AddLocalModule(app, "app", true)
		builder.AddRemoteModule(keyOf(pg, "buf.build/acme/geo"), false)
		if wRemote {
			builder.AddRemoteModule(keyOf(pw, "buf.build/acme/wkt"), false)
		} else {
			w, err := storagemem.NewReadBucket(filesW)
			if err != nil {
				panic(err)
			}
			builder.AddLocalModule(w, "wkt", false)
		}
		moduleSet, err := builder.Build()
		if err != nil {
			m.violate("digest-computable", "remote-leaf", "module set cannot be built: %v", err)
			return "", false
		}
		for _, mod := range moduleSet.Modules() {
			if mod.BucketID() != "app" {
				continue
			}
			got, err := mod.Digest(bufmodule.DigestTypeB5)
			if err != nil {
				m.violate("digest-computable", "remote-leaf", "digest of the local module failed: %v", err)
				return "", false
			}
			return got.String(), true
		}
		m.violate("digest-computable", "remote-leaf", "the local module is not in the module set")
		return "", false
	}
	for round, filesW := range []map[string][]byte{wkt(nonce), wkt(nonce + 1000)} {
		got, ok := digestOfApp(filesW)
		if !ok {
			return
		}
		want := refB5(filesApp, []string{refB5(filesGeo, nil), refB5(filesW, nil)})
		if got != want {
			m.violate("digest-equals-published-construction", "remote-leaf", "local module importing a remote module (no declared dependencies) that imports a well-known type vendored by a third module (remote: %v, content version %d): digest %s, reference over its files and the digests of both modules it depends on is %s", wRemote, round, got, want)
		}
	}
	m.s.Probe("remote-leaf-importing-vendored-wkt")
}

// concurrentDigests: several goroutines ask the same module objects for their digests and
// dependencies at the same time, running freely (no scheduling points, nothing drawn or hashed;
// GOMAXPROCS is 1, 4 or 16 depending on the worker). Whatever lazy computation and memoization sits
// behind Digest() and ModuleDeps(), every caller must get the reference value.
func (m *dsim) concurrentDigests(ref []string) {
	ctx := context.Background()
	builder := bufmodule.NewModuleSetBuilder(ctx, slogext.NopLogger, bufmodule.NopModuleDataProvider, bufmodule.NopCommitProvider)
	for i, md := range m.mods {
		bucket, err := storagemem.NewReadBucket(md.files)
		if err != nil {
			panic(err)
		}
		fn, err := bufparse.ParseFullName(md.name)
		if err != nil {
			panic(err)
		}
		builder.AddLocalModule(bucket, fmt.Sprintf("bucket-%d", i), true, bufmodule.LocalModuleWithFullNameAndCommitID(fn, md.commit))
	}
	moduleSet, err := builder.Build()
	if err != nil {
		m.violate("digest-computable", "concurrent", "module set of %d modules cannot be built: %v", len(m.mods), err)
		return
	}
	const callers = 6
	type answer struct {
		idx    int
		digest string
		err    error
	}
	answers := make([][]answer, callers)
	var wg sync.WaitGroup
	for c := 0; c < callers; c++ {
		wg.Add(1)
		go func(c int) {
			defer wg.Done()
			defer func() {
				// a caller that panics got neither a digest nor an error
				if r := recover(); r != nil {
					answers[c] = append(answers[c], answer{idx: -1, err: fmt.Errorf("panic: %v", r)})
				}
			}()
			mods := moduleSet.Modules()
			for k := range mods {
				// callers start at different modules
				mod := mods[(k+c)%len(mods)]
				var idx int
				if _, err := fmt.Sscanf(mod.BucketID(), "bucket-%d", &idx); err != nil {
					answers[c] = append(answers[c], answer{idx: -1, err: err})
					continue
				}
				if c%2 == 1 {
					if _, err := mod.ModuleDeps(); err != nil {
						answers[c] = append(answers[c], answer{idx: idx, err: err})
						continue
					}
				}
				d, err := mod.Digest(bufmodule.DigestTypeB5)
				if err != nil {
					answers[c] = append(answers[c], answer{idx: idx, err: err})
					continue
				}
				answers[c] = append(answers[c], answer{idx: idx, digest: d.String()})
			}
		}(c)
	}
	wg.Wait()
	for c := range answers {
		for _, a := range answers[c] {
			switch {
			case a.err != nil:
				m.violate("digest-computable", "concurrent", "caller %d of %d concurrent callers: digest of module %d failed: %v", c, callers, a.idx, a.err)
			case a.digest != ref[a.idx]:
				m.violate("digest-equals-published-construction", "concurrent", "caller %d of %d concurrent callers got %s for module %d, reference %s", c, callers, a.digest, a.idx, ref[a.idx])
			}
		}
	}
	m.counters["concurrent_digest_rounds"]++
	m.s.Probe("concurrent-digest-callers")
}

// workspaceBackend lays all modules out as one v2 workspace (buf.yaml at the root, one directory
// per module) and digests them through bufworkspace, the way the CLI sees a local workspace. A
// module that has no LICENSE / documentation file of its own takes the one at the workspace root;
// a module that has its own keeps it, whatever the root offers.
func (m *dsim) workspaceBackend() {
	ctx := context.Background()
	root := map[string][]byte{}
	for _, name := range []string{"LICENSE", "buf.md", "README.md", "README.markdown"} {
		if m.tp.Draw("ws.rootfile", 3) == 1 {
			root[name] = []byte(fmt.Sprintf("workspace %s #%d\n", name, m.tp.Draw("d.nonce", 1000)))
		}
	}
	all := map[string][]byte{}
	var y strings.Builder
	y.WriteString("version: v2\nmodules:\n")
	dirs := make([]string, len(m.mods))
	for i, md := range m.mods {
		dirs[i] = tape.Pick(m.tp, "ws.dir", []string{fmt.Sprintf("m%d", i), fmt.Sprintf("mods/m%d", i), fmt.Sprintf("proto/m%d/v1", i)})
		fmt.Fprintf(&y, "  - path: %s\n", dirs[i])
		if i != len(m.mods)-1 || m.tp.Draw("ws.named", 2) == 1 {
			fmt.Fprintf(&y, "    name: %s\n", md.name)
		}
		for p, c := range md.files {
			all[dirs[i]+"/"+p] = c
		}
	}
	for p, c := range root {
		all[p] = c
	}
	all["buf.yaml"] = []byte(y.String())
	// expected module files: own files, plus what is inherited from the root
	expect := make([]map[string][]byte, len(m.mods))
	for i, md := range m.mods {
		e := map[string][]byte{}
		for p, c := range md.files {
			e[p] = c
		}
		if _, ok := e["LICENSE"]; !ok {
			if c, ok := root["LICENSE"]; ok {
				e["LICENSE"] = c
			}
		}
		hasDoc := false
		for _, d := range docOrder {
			if _, ok := e[d]; ok {
				hasDoc = true
			}
		}
		if !hasDoc {
			for _, d := range docOrder {
				if c, ok := root[d]; ok {
					e[d] = c
					break
				}
			}
		}
		expect[i] = e
	}
	var want func(i int) string
	want = func(i int) string {
		var deps []string
		for _, d := range m.allDeps(i) {
			deps = append(deps, want(d))
		}
		return refB5(expect[i], deps)
	}
	bucket, err := storagemem.NewReadBucket(all)
	if err != nil {
		panic(err)
	}
	targeting, err := buftarget.NewBucketTargeting(ctx, slogext.NopLogger, bucket, ".", nil, nil, buftarget.TerminateAtControllingWorkspace)
	if err != nil {
		m.violate("digest-computable", "workspace", "bucket targeting of a v2 workspace failed: %v", err)
		return
	}
	provider := bufworkspace.NewWorkspaceProvider(slogext.NopLogger, bufmodule.NopGraphProvider, bufmodule.NopModuleDataProvider, bufmodule.NopCommitProvider, bufplugin.NopPluginKeyProvider)
	workspace, err := provider.GetWorkspaceForBucket(ctx, bucket, targeting)
	if err != nil {
		m.violate("digest-computable", "workspace", "a v2 workspace of %d modules cannot be loaded: %v", len(m.mods), err)
		return
	}
	seen := 0
	for _, mod := range workspace.Modules() {
		if !mod.IsLocal() {
			continue
		}
		idx := -1
		for i, d := range dirs {
			if mod.BucketID() == d {
				idx = i
			}
		}
		if idx < 0 {
			m.violate("harness-reference", "harness|workspace-module", "unexpected module with bucket id %q", mod.BucketID())
			return
		}
		seen++
		d, err := mod.Digest(bufmodule.DigestTypeB5)
		if err != nil {
			m.violate("digest-computable", "workspace", "digest of workspace module %d failed: %v", idx, err)
			continue
		}
		if w := want(idx); d.String() != w {
			var rootNames []string
			for n := range root {
				rootNames = append(rootNames, n)
			}
			sort.Strings(rootNames)
			m.violate("digest-equals-published-construction", "backend|workspace", "module %d in a v2 workspace (root has %v): digest %s, reference %s over its own module files plus inherited LICENSE / doc file", idx, rootNames, d.String(), w)
		}
	}
	if seen != len(m.mods) {
		m.violate("digest-computable", "workspace", "workspace has %d local modules, expected %d", seen, len(m.mods))
	}
	if m.tp.Draw("ws.cli", 2) == 1 {
		names := make([]string, len(m.mods))
		for i, md := range m.mods {
			names[i] = dirs[i]
			if strings.Contains(y.String(), "    name: "+md.name+"\n") {
				names[i] = md.name
			}
		}
		m.workspaceThroughTheCommandLine(all, dirs, names, want)
	}
	m.s.Probe("workspace-backend")
	if len(root) > 0 {
		m.s.Probe("workspace-root-license-or-doc")
	}
	// once more with ONE failing Get or Stat somewhere in the construction (EIO, everything before and after
	// healthy): the load or a digest fails, or every digest is still the reference - never another value.
	// Stat of a documentation file name is left alone: buf probes for those with Stat and cannot by its API
	// tell a failed probe from an absent file (DESIGN 5.3).
	counter := &faultyReadBucket{ReadBucket: bucket, failAt: -1}
	if t2, err := buftarget.NewBucketTargeting(ctx, slogext.NopLogger, counter, ".", nil, nil, buftarget.TerminateAtControllingWorkspace); err == nil {
		if ws2, err := provider.GetWorkspaceForBucket(ctx, counter, t2); err == nil {
			for _, mod := range ws2.Modules() {
				_, _ = mod.Digest(bufmodule.DigestTypeB5)
			}
		}
	}
	if counter.n > 0 {
		faulty := &faultyReadBucket{ReadBucket: bucket, failAt: 1 + m.tp.Draw("ws.failat", counter.n)}
		reported := false
		t3, err := buftarget.NewBucketTargeting(ctx, slogext.NopLogger, faulty, ".", nil, nil, buftarget.TerminateAtControllingWorkspace)
		if err != nil {
			reported = true
		} else if ws3, err := provider.GetWorkspaceForBucket(ctx, faulty, t3); err != nil {
			reported = true
		} else {
			for _, mod := range ws3.Modules() {
				if !mod.IsLocal() {
					continue
				}
				idx := -1
				for i, d := range dirs {
					if mod.BucketID() == d {
						idx = i
					}
				}
				if idx < 0 {
					continue
				}
				d, err := mod.Digest(bufmodule.DigestTypeB5)
				if err != nil {
					reported = true
					continue
				}
				if w := want(idx); d.String() != w && faulty.fired != "" {
					m.violate("fault-never-changes-digest", "workspace|"+strings.SplitN(faulty.fired, " ", 2)[0], "module %d in a v2 workspace: after one failed %s (input/output error) the workspace loaded and the digest is %s, the reference %s", idx, faulty.fired, d.String(), w)
				}
			}
		}
		if faulty.fired != "" {
			m.s.Fired("workspace-" + strings.SplitN(faulty.fired, " ", 2)[0] + "-err")
			if reported {
				m.s.Probe("workspace-fault-reported")
			} else {
				m.s.Probe("workspace-fault-harmless")
			}
		}
	}
}

// faultyReadBucket fails its failAt-th Get or Stat (doc-file probes by Stat not counted) with EIO.
type faultyReadBucket struct {
	storage.ReadBucket
	n      int
	failAt int
	fired  string
}

func (b *faultyReadBucket) hit(op, path string) error {
	b.n++
	if b.n == b.failAt {
		b.fired = op + " " + path
		return &fs.PathError{Op: op, Path: path, Err: syscall.EIO}
	}
	return nil
}

func (b *faultyReadBucket) Get(ctx context.Context, path string) (storage.ReadObjectCloser, error) {
	if err := b.hit("get", path); err != nil {
		return nil, err
	}
	return b.ReadBucket.Get(ctx, path)
}

func (b *faultyReadBucket) Stat(ctx context.Context, path string) (storage.ObjectInfo, error) {
	base := path[strings.LastIndex(path, "/")+1:]
	for _, d := range docOrder {
		if base == d {
			return b.ReadBucket.Stat(ctx, path)
		}
	}
	if err := b.hit("stat", path); err != nil {
		return nil, err
	}
	return b.ReadBucket.Stat(ctx, path)
}

// cacheRoundTripB4 does the same for the legacy digest, whose construction includes the v1
// buf.yaml and buf.lock objects kept beside the module files in the cache.
func (m *dsim) cacheRoundTripB4(main int, tarLayout bool) {
	ctx := context.Background()
	md := m.mods[main]
	fn, err := bufparse.ParseFullName(md.name)
	if err != nil {
		panic(err)
	}
	yamlName := "buf.yaml"
	if md.bufYAML != nil && m.tp.Draw("d.bufmod", 3) == 2 {
		yamlName = "buf.mod"
		m.s.Probe("legacy-config-file-name")
	}
	want4 := refB4Named(md.files, yamlName, md.bufYAML, md.bufLock)
	refDigest, err := bufmodule.ParseDigest(want4)
	if err != nil {
		m.violate("digest-equals-published-construction", "parse", "reference b4 digest %q does not parse: %v", want4, err)
		return
	}
	key, err := bufmodule.NewModuleKey(fn, md.commit, func() (bufmodule.Digest, error) { return refDigest, nil })
	if err != nil {
		panic(err)
	}
	object := func(name string, content []byte) func() (bufmodule.ObjectData, error) {
		return func() (bufmodule.ObjectData, error) {
			if content == nil {
				return nil, nil
			}
			return bufmodule.NewObjectData(name, content)
		}
	}
	data := bufmodule.NewModuleData(ctx, key,
		func() (storage.ReadBucket, error) { return storagemem.NewReadBucket(md.files) },
		func() ([]bufmodule.ModuleKey, error) { return nil, nil },
		object(yamlName, md.bufYAML),
		object("buf.lock", md.bufLock),
	)
	m.n++
	dir := filepath.Join(m.env.Scratch, fmt.Sprintf("cache%d", m.n))
	_ = os.MkdirAll(dir, 0o755)
	raw, err := storageos.NewProvider().NewReadWriteBucket(dir)
	if err != nil {
		panic(err)
	}
	var opts []bufmodulestore.ModuleDataStoreOption
	layout := "dir"
	if tarLayout {
		opts = append(opts, bufmodulestore.ModuleDataStoreWithTar())
		layout = "tar"
	}
	store := bufmodulestore.NewModuleDataStore(slogext.NopLogger, raw, filelock.NewNopLocker(), opts...)
	if err := store.PutModuleDatas(ctx, []bufmodule.ModuleData{data}); err != nil {
		m.violate("digest-equals-published-construction", "cache-b4|"+layout, "storing the module under a key pinned to the reference b4 digest failed: %v", err)
		return
	}
	found, _, err := store.GetModuleDatasForModuleKeys(ctx, []bufmodule.ModuleKey{key})
	if err != nil || len(found) != 1 {
		m.violate("digest-equals-published-construction", "cache-b4|"+layout, "module not found in the cache after storing it (err=%v)", err)
		return
	}
	if _, err := found[0].Bucket(); err != nil {
		m.violate("digest-equals-published-construction", "cache-b4|"+layout, "cache (%s layout) content does not verify against the reference b4 digest (buf.yaml %d bytes, buf.lock %d bytes; -1 = absent): %v", layout, lenOrAbsent(md.bufYAML), lenOrAbsent(md.bufLock), err)
		return
	}
	m.s.Probe("cache-backend-verified-b4")
}

func lenOrAbsent(b []byte) int {
	if b == nil {
		return -1
	}
	return len(b)
}

// cacheRoundTrip stores the main module in a module cache store on disk and loads it again.
func (m *dsim) cacheRoundTrip(main int, ref []string, tarLayout bool) {
	ctx := context.Background()
	md := m.mods[main]
	fn, err := bufparse.ParseFullName(md.name)
	if err != nil {
		panic(err)
	}
	refDigest, err := bufmodule.ParseDigest(ref[main])
	if err != nil {
		m.violate("digest-equals-published-construction", "parse", "reference digest %q does not parse: %v", ref[main], err)
		return
	}
	key, err := bufmodule.NewModuleKey(fn, md.commit, func() (bufmodule.Digest, error) { return refDigest, nil })
	if err != nil {
		panic(err)
	}
	var depKeys []bufmodule.ModuleKey
	var depDigests []string
	for _, d := range m.allDeps(main) {
		depDigests = append(depDigests, ref[d])
	}
	// a remote module may list two differently named dependencies with identical content
	// (a fork or mirror): both digests enter the b5 construction
	mirror := len(depDigests) > 0 && m.tp.Draw("mirror", 2) == 1
	if mirror {
		depDigests = append(depDigests, depDigests[0])
		pinned := refB5(md.files, depDigests)
		pd, err := bufmodule.ParseDigest(pinned)
		if err != nil {
			panic(err)
		}
		refDigest = pd
		key, err = bufmodule.NewModuleKey(fn, md.commit, func() (bufmodule.Digest, error) { return refDigest, nil })
		if err != nil {
			panic(err)
		}
		mfn, _ := bufparse.ParseFullName("buf.build/acme/mirror")
		first := m.allDeps(main)[0]
		dd, _ := bufmodule.ParseDigest(ref[first])
		mc := m.mods[first].commit
		mc[14] ^= 0x5a
		mk, err := bufmodule.NewModuleKey(mfn, mc, func() (bufmodule.Digest, error) { return dd, nil })
		if err != nil {
			panic(err)
		}
		depKeys = append(depKeys, mk)
		m.s.Probe("mirror-dependency")
	}
	for _, d := range m.allDeps(main) {
		dfn, _ := bufparse.ParseFullName(m.mods[d].name)
		dd, err := bufmodule.ParseDigest(ref[d])
		if err != nil {
			panic(err)
		}
		dk, err := bufmodule.NewModuleKey(dfn, m.mods[d].commit, func() (bufmodule.Digest, error) { return dd, nil })
		if err != nil {
			panic(err)
		}
		depKeys = append(depKeys, dk)
	}
	data := bufmodule.NewModuleData(ctx, key,
		func() (storage.ReadBucket, error) { return storagemem.NewReadBucket(md.files) },
		func() ([]bufmodule.ModuleKey, error) { return depKeys, nil },
		func() (bufmodule.ObjectData, error) { return nil, nil },
		func() (bufmodule.ObjectData, error) { return nil, nil },
	)
	m.n++
	dir := filepath.Join(m.env.Scratch, fmt.Sprintf("cache%d", m.n))
	_ = os.MkdirAll(dir, 0o755)
	raw, err := storageos.NewProvider().NewReadWriteBucket(dir)
	if err != nil {
		panic(err)
	}
	var opts []bufmodulestore.ModuleDataStoreOption
	layout := "dir"
	if tarLayout {
		opts = append(opts, bufmodulestore.ModuleDataStoreWithTar())
		layout = "tar"
	}
	store := bufmodulestore.NewModuleDataStore(slogext.NopLogger, raw, filelock.NewNopLocker(), opts...)
	if err := store.PutModuleDatas(ctx, []bufmodule.ModuleData{data}); err != nil {
		// the key pins the REFERENCE digest: a store that rejects the content disagrees with the published construction
		m.violate("digest-equals-published-construction", "cache|"+layout, "storing the module under a key pinned to the reference digest failed: %v", err)
		return
	}
	found, _, err := store.GetModuleDatasForModuleKeys(ctx, []bufmodule.ModuleKey{key})
	if err != nil || len(found) != 1 {
		m.violate("digest-equals-published-construction", "cache|"+layout, "module not found in the cache after storing it (err=%v)", err)
		return
	}
	if _, err := found[0].Bucket(); err != nil {
		m.violate("digest-equals-published-construction", "cache|"+layout, "cache (%s layout) content does not verify against the reference digest: %v", layout, err)
		return
	}
	m.s.Probe("cache-backend-verified")
}
