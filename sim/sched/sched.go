// Package sched is the deterministic scheduler: real goroutines of the code
// under test are parked at intercepted operations and released exactly one at
// a time, the choice (and the fault that hits the released operation) being
// drawn from the tape. Quiescence is detected with testing/synctest.
package sched

import (
	"context"
	"crypto/sha256"
	"encoding/hex"
	"errors"
	"fmt"
	"hash"
	"sort"
	"strconv"
	"strings"
	"sync"
	"sync/atomic"
	"syscall"
	"testing/synctest"
	"time"

	"github.com/bufbuild/verif/tape"
)

// ErrCrashed is returned by every simulated component once the calling
// simulated process is dead.
var ErrCrashed = errors.New("verif: simulated process crashed")

// ErrInjected is the base of every injected error.
var ErrInjected = errors.New("verif: injected fault")

// InjectedError is an injected fault of a particular kind. Write-side faults also carry an
// errno, a pure function of kind and operation (no draw): real write failures are ENOSPC, EIO,
// EACCES - and ENOENT when a directory vanishes -, and code that inspects the error
// (errors.Is(err, fs.ErrNotExist)) must not mistake a failed write for an absent object.
type InjectedError struct {
	Kind  string
	Op    string
	Errno syscall.Errno
}

func (e *InjectedError) Error() string {
	if e.Errno != 0 {
		return "verif: injected " + e.Kind + " at " + e.Op + ": " + e.Errno.Error()
	}
	return "verif: injected " + e.Kind + " at " + e.Op
}

// Unwrap makes errors.Is see both the injection marker and the errno.
func (e *InjectedError) Unwrap() []error {
	if e.Errno != 0 {
		return []error{ErrInjected, e.Errno}
	}
	return []error{ErrInjected}
}

var writeSideFaults = map[string]bool{"put-err": true, "write-err": true, "short-write": true, "close-err": true, "rename-err": true}

func errnoFor(kind, op string, salt int) syscall.Errno {
	if !writeSideFaults[kind] || salt == 0 {
		return 0
	}
	h := uint32(salt)
	for _, c := range []byte(kind + "|" + op) {
		h = h*31 + uint32(c)
	}
	return []syscall.Errno{0, syscall.ENOSPC, syscall.ENOENT, syscall.EACCES, syscall.EIO, syscall.ENOENT}[h%6]
}

// Op identifies an intercepted operation.
type Op struct {
	Proc string
	Job  string
	Kind string
	Path string
	Occ  int
	// Size is the number of bytes involved, when meaningful (write).
	Size int
}

// Key is the stable identity used to sort the parked set.
func (o Op) Key() string {
	return o.Proc + "|" + o.Job + "|" + o.Kind + "|" + o.Path + "|" + strconv.Itoa(o.Occ)
}

// PosKey identifies an operation independently of schedule and process:
// (kind, path, occurrence).
func (o Op) PosKey() string { return o.Kind + "|" + o.Path + "|" + strconv.Itoa(o.Occ) }

// Decision is what the scheduler tells a released operation.
type Decision struct {
	Fault   string // "" = none
	Arg     int
	Salt    int // set by the scheduler for write-side faults: selects the errno of the injected error
	Dead    bool
	Timeout bool
}

// Err returns the injected error for the decision or nil.
func (d Decision) Err(op string) error {
	if d.Dead {
		return ErrCrashed
	}
	if d.Fault == "" {
		return nil
	}
	return &InjectedError{Kind: d.Fault, Op: op, Errno: errnoFor(d.Fault, op, d.Salt)}
}

// Policy decides the fault for an operation about to be released. It may draw.
type Policy interface {
	Decide(s *Sim, op Op) Decision
}

// PolicyFunc adapts a function.
type PolicyFunc func(s *Sim, op Op) Decision

// Decide implements Policy.
func (f PolicyFunc) Decide(s *Sim, op Op) Decision { return f(s, op) }

// Proc is a simulated OS process.
type Proc struct {
	Name    string
	Dead    bool
	running int
	// OnKill callbacks are run (by the scheduler goroutine) when the process dies.
	OnKill []func()
}

type parked struct {
	op          Op
	key         string
	ch          chan Decision
	guard       func() bool
	deadline    time.Duration
	hasDeadline bool
	proc        *Proc
	noFault     bool
}

type taskCtxKey struct{}

type taskCtx struct {
	proc *Proc
	job  string
}

// Violation is an oracle failure.
type Violation struct {
	Oracle string `json:"oracle"`
	// Sig is a stable signature built from oracle id, operation, fault kind and
	// call site - never from seeds - used to match known findings.
	Sig string `json:"sig"`
	Msg string `json:"msg"`
}

// Sim is one simulated run.
type Sim struct {
	Tape      *tape.Tape
	Policy    Policy
	errnoSalt int
	// BeforeRelease, if set, is called by the scheduler goroutine while every
	// task is parked, just before op is released (crash snapshots live here).
	BeforeRelease func(op Op)
	MaxSteps      int
	Tick          time.Duration
	KeepTrace     bool
	// YieldJobs makes thread.Parallelize job start/end points scheduling points.
	YieldJobs bool
	// FIFO disables drawing of the schedule: always lowest key.
	FIFO bool
	// Laggard, if set, names the slow tasks of this run (a stalled process, the workers a caller no longer
	// waits for, ...): while any other task is enabled a laggard is held back, except at one step in LagRate
	// (tape-drawn). Every schedule it produces is one the uniform choice can produce too - only far more
	// rarely: a task that is overtaken by fifty steps of others in a row. LagRate (default 32): a laggard
	// competes with the others at one step in LagRate.
	Laggard func(op Op) bool
	LagRate int
	// Unhashed: events are recorded but do not enter the trace hash (used for
	// executions whose schedule the simulator deliberately leaves to the Go runtime).
	Unhashed bool

	mu       sync.Mutex
	parked   []*parked
	occ      map[string]int
	procs    map[string]*Proc
	procList []*Proc
	current  *parked
	curDec   Decision
	draining bool

	Now        time.Duration
	Steps      int
	seq        int // numbering of hashed trace lines (does not advance in Unhashed mode)
	Faults     map[string]int
	Probes     map[string]int
	Violations []Violation
	TraceLines []string
	hasher     hash.Hash
	schedHash  hash.Hash
	Preempts   int
	Choices    int // number of steps with >1 enabled task
	lastProc   string
	Progress   *atomic.Int64
	Deadlocked bool
	StepLimit  bool
}

// New creates a simulation.
func New(t *tape.Tape) *Sim {
	return &Sim{
		Tape:      t,
		MaxSteps:  4000,
		LagRate:   32,
		Tick:      100 * time.Microsecond,
		occ:       map[string]int{},
		procs:     map[string]*Proc{},
		Faults:    map[string]int{},
		Probes:    map[string]int{},
		hasher:    sha256.New(),
		schedHash: sha256.New(),
	}
}

// Proc returns (creating) the named process.
func (s *Sim) Proc(name string) *Proc {
	s.mu.Lock()
	defer s.mu.Unlock()
	p := s.procs[name]
	if p == nil {
		p = &Proc{Name: name}
		s.procs[name] = p
		s.procList = append(s.procList, p)
	}
	return p
}

// Context returns a context that attributes operations to proc.
func (s *Sim) Context(proc *Proc) context.Context {
	return context.WithValue(context.Background(), taskCtxKey{}, &taskCtx{proc: proc})
}

// Spawn starts f as a root task of proc.
func (s *Sim) Spawn(proc *Proc, f func(ctx context.Context)) {
	s.mu.Lock()
	proc.running++
	s.mu.Unlock()
	ctx := s.Context(proc)
	go func() {
		defer func() {
			s.mu.Lock()
			proc.running--
			s.mu.Unlock()
		}()
		f(ctx)
	}()
}

func fromCtx(ctx context.Context) *taskCtx {
	if ctx == nil {
		return nil
	}
	tc, _ := ctx.Value(taskCtxKey{}).(*taskCtx)
	return tc
}

// ProcOf returns the simulated process of ctx, or nil.
func ProcOf(ctx context.Context) *Proc {
	if tc := fromCtx(ctx); tc != nil {
		return tc.proc
	}
	return nil
}

// Event adds a line to the trace (and its hash). Must not draw.
func (s *Sim) Event(format string, args ...any) {
	line := fmt.Sprintf(format, args...)
	s.mu.Lock()
	if !s.draining {
		s.eventLocked(line)
	}
	s.mu.Unlock()
}

// stepNo returns the number printed in front of a release line.
func (s *Sim) stepNo() int {
	if !s.Unhashed {
		s.seq++
	}
	return s.seq
}

func (s *Sim) eventLocked(line string) {
	if s.Unhashed {
		if s.KeepTrace {
			s.TraceLines = append(s.TraceLines, "~ "+line)
		}
		return
	}
	s.hasher.Write([]byte(line))
	s.hasher.Write([]byte{'\n'})
	if s.KeepTrace {
		s.TraceLines = append(s.TraceLines, line)
	}
}

// Probe counts a reach probe.
func (s *Sim) Probe(name string) {
	s.mu.Lock()
	if !s.draining {
		s.Probes[name]++
	}
	s.mu.Unlock()
}

// Fired counts a fault that actually took effect.
func (s *Sim) Fired(kind string) {
	s.mu.Lock()
	if !s.draining {
		s.Faults[kind]++
	}
	s.mu.Unlock()
}

// Violate records a violation.
func (s *Sim) Violate(oracle, sig, format string, args ...any) {
	msg := fmt.Sprintf(format, args...)
	s.mu.Lock()
	if !s.draining {
		// what a dead process "observes" while it unwinds is not an observation
		s.Violations = append(s.Violations, Violation{Oracle: oracle, Sig: sig, Msg: msg})
		// shown in the trace but not hashed: the trace hash identifies the execution
		// (schedule, faults, observations), so that a divergence caused by something the
		// simulator cannot seed (Go map iteration order) is reported as a violation and
		// not mistaken for a nondeterministic harness
		if s.KeepTrace {
			s.TraceLines = append(s.TraceLines, "VIOLATION "+sig+": "+msg)
		}
	}
	s.mu.Unlock()
}

// TraceHash is the hash of everything that happened so far.
func (s *Sim) TraceHash() string {
	s.mu.Lock()
	defer s.mu.Unlock()
	return hex.EncodeToString(s.hasher.Sum(nil))[:24]
}

// SchedHash is the hash of the sequence of released operations only.
func (s *Sim) SchedHash() string {
	s.mu.Lock()
	defer s.mu.Unlock()
	return hex.EncodeToString(s.schedHash.Sum(nil))[:24]
}

// YieldOpt modifies a yield.
type YieldOpt func(*parked)

// Guarded makes the task enabled only when guard() holds; after timeout of
// simulated time it is released with Decision.Timeout.
func Guarded(guard func() bool, timeout time.Duration) YieldOpt {
	return func(p *parked) {
		p.guard = guard
		if timeout > 0 {
			p.hasDeadline = true
			p.deadline = timeout // relative; made absolute in Yield
		}
	}
}

// NoFault says the policy must not be consulted for this yield.
func NoFault() YieldOpt { return func(p *parked) { p.noFault = true } }

// WithoutJob keys the yield by process only: used where the job path is assigned from
// a Go map iteration in the code under test and is therefore not reproducible.
func WithoutJob() YieldOpt { return func(p *parked) { p.op.Job = "" } }

// WithSize records the byte size of the operation.
func WithSize(n int) YieldOpt { return func(p *parked) { p.op.Size = n } }

// Yield parks the calling goroutine until the scheduler releases it.
// With a ctx that carries no simulated task it returns immediately.
func (s *Sim) Yield(ctx context.Context, kind, path string, opts ...YieldOpt) Decision {
	tc := fromCtx(ctx)
	if tc == nil {
		return Decision{}
	}
	return s.yield(tc.proc, tc.job, kind, path, opts)
}

// YieldCurrent parks the calling goroutine, attributing it to the task that
// was released last (used by ctx-less hooks below an intercepted operation).
// YieldCurrentAs is YieldCurrent with the operation kind taken as given: for operations of
// code that no wrapper sits in front of (raw mode of the storage hooks).
func (s *Sim) YieldCurrentAs(kind, path string, opts ...YieldOpt) Decision {
	s.mu.Lock()
	cur := s.current
	s.mu.Unlock()
	if cur == nil {
		return Decision{}
	}
	return s.yield(cur.proc, cur.op.Job, kind, path, opts)
}

func (s *Sim) YieldCurrent(kind, path string, opts ...YieldOpt) Decision {
	s.mu.Lock()
	cur := s.current
	s.mu.Unlock()
	if cur == nil {
		return Decision{}
	}
	return s.yield(cur.proc, cur.op.Job, cur.op.Kind+">"+kind, path, opts)
}

// CurrentDecision returns the decision given to the task that runs now.
func (s *Sim) CurrentDecision() (Op, Decision, bool) {
	s.mu.Lock()
	defer s.mu.Unlock()
	if s.current == nil {
		return Op{}, Decision{}, false
	}
	return s.current.op, s.curDec, true
}

func (s *Sim) yield(proc *Proc, job, kind, path string, opts []YieldOpt) Decision {
	s.mu.Lock()
	if s.draining || proc.Dead {
		s.mu.Unlock()
		return Decision{Dead: true}
	}
	base := proc.Name + "|" + job + "|" + kind + "|" + path
	occ := s.occ[base]
	s.occ[base] = occ + 1
	p := &parked{
		op:   Op{Proc: proc.Name, Job: job, Kind: kind, Path: path, Occ: occ},
		ch:   make(chan Decision, 1),
		proc: proc,
	}
	for _, o := range opts {
		o(p)
	}
	if p.op.Job == "" && job != "" {
		// re-key: the occurrence counter must follow the key actually used
		s.occ[base]--
		base = proc.Name + "||" + kind + "|" + path
		p.op.Occ = s.occ[base]
		s.occ[base]++
	}
	if p.hasDeadline {
		p.deadline += s.Now
	}
	p.key = p.op.Key()
	s.parked = append(s.parked, p)
	s.mu.Unlock()
	return <-p.ch
}

// Kill marks proc dead, runs its OnKill callbacks. Its goroutines stay parked.
func (s *Sim) Kill(proc *Proc) {
	s.mu.Lock()
	if proc.Dead {
		s.mu.Unlock()
		return
	}
	proc.Dead = true
	cbs := proc.OnKill
	s.eventLocked("KILL " + proc.Name)
	s.mu.Unlock()
	for _, cb := range cbs {
		cb()
	}
}

// liveWork says whether any live process still has unfinished root tasks.
func (s *Sim) liveWork() bool {
	for _, p := range s.procList {
		if !p.Dead && p.running > 0 {
			return true
		}
	}
	return false
}

// Run drives the simulation until every live process has finished all root
// tasks. It must be called from the bubble's main goroutine.
func (s *Sim) Run() {
	for {
		synctest.Wait()
		if s.Progress != nil {
			s.Progress.Add(1)
		}
		s.mu.Lock()
		s.current = nil
		if !s.liveWork() {
			s.mu.Unlock()
			return
		}
		var enabled []*parked
		var waiting []*parked
		expired := map[*parked]bool{}
		for _, p := range s.parked {
			if p.proc.Dead {
				continue
			}
			if p.guard == nil || p.guard() {
				enabled = append(enabled, p)
			} else if p.hasDeadline && p.deadline <= s.Now {
				// its timeout has passed: it may be released with a timeout at any moment
				expired[p] = true
				enabled = append(enabled, p)
			} else {
				waiting = append(waiting, p)
			}
		}
		if len(enabled) == 0 {
			// time passes: earliest deadline fires
			var next *parked
			for _, p := range waiting {
				if p.hasDeadline && (next == nil || p.deadline < next.deadline || (p.deadline == next.deadline && p.key < next.key)) {
					next = p
				}
			}
			if next == nil {
				s.Deadlocked = true
				var keys []string
				for _, p := range s.parked {
					if !p.proc.Dead {
						keys = append(keys, p.key)
					}
				}
				sort.Strings(keys)
				s.eventLocked("DEADLOCK parked=" + strings.Join(keys, ","))
				s.mu.Unlock()
				return
			}
			if next.deadline > s.Now {
				s.Now = next.deadline
			}
			s.removeLocked(next)
			s.Steps++
			s.eventLocked(fmt.Sprintf("%d T %s timeout", s.stepNo(), next.key))
			s.schedHash.Write([]byte(next.key + "!T\n"))
			s.current = next
			s.curDec = Decision{Timeout: true}
			s.mu.Unlock()
			next.ch <- Decision{Timeout: true}
			continue
		}
		if s.Steps >= s.MaxSteps {
			s.StepLimit = true
			s.eventLocked("STEPLIMIT")
			s.mu.Unlock()
			return
		}
		sort.Slice(enabled, func(i, j int) bool { return enabled[i].key < enabled[j].key })
		s.mu.Unlock()
		if s.Laggard != nil && !s.FIFO && len(enabled) > 1 {
			var fast []*parked
			for _, p := range enabled {
				if !s.Laggard(p.op) {
					fast = append(fast, p)
				}
			}
			if len(fast) > 0 && len(fast) < len(enabled) && s.Tape.Draw("lag?", max(s.LagRate, 2)) != 0 {
				enabled = fast
				s.Faults["lag"]++
			}
		}
		idx := 0
		if len(enabled) > 1 {
			s.Choices++
			if !s.FIFO {
				idx = s.Tape.Draw("sched", len(enabled))
			}
		}
		chosen := enabled[idx]
		if expired[chosen] {
			s.mu.Lock()
			s.removeLocked(chosen)
			s.Steps++
			s.eventLocked(fmt.Sprintf("%d T %s timeout", s.stepNo(), chosen.key))
			s.schedHash.Write([]byte(chosen.key + "!T\n"))
			s.current = chosen
			s.curDec = Decision{Timeout: true}
			s.mu.Unlock()
			chosen.ch <- Decision{Timeout: true}
			continue
		}
		if s.lastProc != "" && chosen.op.Proc != s.lastProc {
			s.Preempts++
		}
		s.lastProc = chosen.op.Proc
		var dec Decision
		if s.Policy != nil && !chosen.noFault {
			dec = s.Policy.Decide(s, chosen.op)
		}
		if writeSideFaults[dec.Fault] && dec.Salt == 0 {
			if s.errnoSalt == 0 {
				// one draw per run, made when the first write-side fault is about to be injected
				s.errnoSalt = 1 + s.Tape.Draw("errno-salt", 1000)
			}
			dec.Salt = s.errnoSalt
		}
		s.Steps++
		s.Now += s.Tick
		if dec.Fault == "stall" {
			s.Now += time.Duration(dec.Arg) * time.Millisecond
			s.Faults["stall"]++
			dec = Decision{}
		}
		if dec.Fault == "machine-crash" {
			s.Event("%d M %s", s.stepNo(), chosen.key)
			s.schedHash.Write([]byte(chosen.key + "!M\n"))
			s.Faults["machine-crash"]++
			s.mu.Lock()
			procs := append([]*Proc(nil), s.procList...)
			s.mu.Unlock()
			for _, p := range procs {
				s.Kill(p)
			}
			continue
		}
		if dec.Fault == "proc-crash" {
			s.Event("%d K %s", s.stepNo(), chosen.key)
			s.schedHash.Write([]byte(chosen.key + "!K\n"))
			s.Faults["proc-crash"]++
			s.Kill(chosen.proc)
			continue
		}
		if s.BeforeRelease != nil {
			s.BeforeRelease(chosen.op)
		}
		s.mu.Lock()
		s.removeLocked(chosen)
		if dec.Fault != "" {
			s.eventLocked(fmt.Sprintf("%d R %s f=%s/%d", s.stepNo(), chosen.key, dec.Fault, dec.Arg))
		} else {
			s.eventLocked(fmt.Sprintf("%d R %s", s.stepNo(), chosen.key))
		}
		if !s.Unhashed {
			s.schedHash.Write([]byte(chosen.key + "\n"))
		}
		s.current = chosen
		s.curDec = dec
		s.mu.Unlock()
		chosen.ch <- dec
	}
}

func (s *Sim) removeLocked(p *parked) {
	for i, q := range s.parked {
		if q == p {
			s.parked = append(s.parked[:i], s.parked[i+1:]...)
			return
		}
	}
}

// Drain releases every remaining parked goroutine in dead mode and waits for
// the bubble to become quiet. Call once, after all oracles have run.
func (s *Sim) Drain() {
	s.mu.Lock()
	s.draining = true
	s.current = nil
	s.mu.Unlock()
	for i := 0; i < 10000; i++ {
		s.mu.Lock()
		ps := s.parked
		s.parked = nil
		s.mu.Unlock()
		for _, p := range ps {
			p.ch <- Decision{Dead: true}
		}
		synctest.Wait()
		s.mu.Lock()
		n := len(s.parked)
		s.mu.Unlock()
		if n == 0 {
			return
		}
	}
}

// Draining says whether the simulation is unwinding.
func (s *Sim) Draining() bool {
	s.mu.Lock()
	defer s.mu.Unlock()
	return s.draining
}

// ParkedKeys lists the keys of the currently parked live tasks (sorted).
func (s *Sim) ParkedKeys() []string {
	s.mu.Lock()
	defer s.mu.Unlock()
	var keys []string
	for _, p := range s.parked {
		if !p.proc.Dead {
			keys = append(keys, p.key)
		}
	}
	sort.Strings(keys)
	return keys
}

// ---- verifhook.Handler -------------------------------------------------

// JobContext implements verifhook.Handler.
func (s *Sim) JobContext(ctx context.Context, index int) context.Context {
	tc := fromCtx(ctx)
	if tc == nil {
		return ctx
	}
	return context.WithValue(ctx, taskCtxKey{}, &taskCtx{proc: tc.proc, job: tc.job + "/" + strconv.Itoa(index)})
}

// ResetEpoch forgets per-operation occurrence counters so that position keys
// of a new epoch are comparable with those of an earlier one.
func (s *Sim) ResetEpoch() {
	s.mu.Lock()
	s.occ = map[string]int{}
	s.lastProc = ""
	s.mu.Unlock()
}
