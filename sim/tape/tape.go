// Package tape is the single source of every choice a simulated run makes.
//
// A fresh run draws from a PCG seeded from (seed, property, run index) and
// records every draw. A replay run returns the recorded values in order and 0
// once the recording is exhausted. 0 is always the simplest choice, so
// shrinking towards zeros shrinks towards the fault-free FIFO execution.
package tape

import (
	"crypto/sha256"
	"encoding/binary"
	"math/rand/v2"
)

// Tape is a recorded or recording sequence of choices.
type Tape struct {
	rng    *rand.Rand
	replay []uint32
	pos    int
	Rec    []uint32
	// Labels is only filled when Verbose is set (debugging aid; never affects choices).
	Verbose bool
	Labels  []string
	// Overrun counts draws made past the end of a replayed tape.
	Overrun int
	// Clamped counts replayed values that had to be reduced modulo n.
	Clamped int
}

// Mix derives the PCG seed words for a run.
func Mix(seed uint64, property string, run uint64) (uint64, uint64) {
	h := sha256.New()
	var b [8]byte
	binary.LittleEndian.PutUint64(b[:], seed)
	h.Write(b[:])
	h.Write([]byte(property))
	binary.LittleEndian.PutUint64(b[:], run)
	h.Write(b[:])
	sum := h.Sum(nil)
	return binary.LittleEndian.Uint64(sum[0:8]), binary.LittleEndian.Uint64(sum[8:16])
}

// New returns a recording tape.
func New(seed uint64, property string, run uint64) *Tape {
	a, b := Mix(seed, property, run)
	return &Tape{rng: rand.New(rand.NewPCG(a, b))}
}

// Replay returns a tape that replays rec.
func Replay(rec []uint32) *Tape {
	return &Tape{replay: append([]uint32(nil), rec...)}
}

// Draw returns a value in [0,n). n<=1 returns 0 without consuming anything.
func (t *Tape) Draw(label string, n int) int {
	if n <= 1 {
		return 0
	}
	var v uint32
	if t.rng != nil {
		v = uint32(t.rng.IntN(n))
	} else if t.pos < len(t.replay) {
		v = t.replay[t.pos]
		t.pos++
		if int(v) >= n {
			v = v % uint32(n)
			t.Clamped++
		}
	} else {
		t.Overrun++
		v = 0
	}
	t.Rec = append(t.Rec, v)
	if t.Verbose {
		t.Labels = append(t.Labels, label)
	}
	return int(v)
}

// Bool draws true with probability num/den. Zero means false.
func (t *Tape) Bool(label string, num, den int) bool {
	if num <= 0 {
		return false
	}
	if num >= den {
		// still consume nothing: deterministic true
		return true
	}
	// map so that 0 => false
	return t.Draw(label, den) >= den-num
}

// Range draws in [lo,hi] inclusive; 0 maps to lo.
func (t *Tape) Range(label string, lo, hi int) int {
	if hi <= lo {
		return lo
	}
	return lo + t.Draw(label, hi-lo+1)
}

// Pick draws an index.
func Pick[T any](t *Tape, label string, xs []T) T {
	return xs[t.Draw(label, len(xs))]
}

// Perm returns a permutation of [0,n) drawn from the tape; all-zero draws give identity.
func (t *Tape) Perm(label string, n int) []int {
	p := make([]int, n)
	for i := range p {
		p[i] = i
	}
	for i := 0; i < n-1; i++ {
		j := i + t.Draw(label, n-i)
		p[i], p[j] = p[j], p[i]
	}
	return p
}

// Bytes draws n bytes cheaply (one draw per 3 bytes).
func (t *Tape) Bytes(label string, n int) []byte {
	out := make([]byte, 0, n)
	for len(out) < n {
		v := t.Draw(label, 1<<24)
		out = append(out, byte(v), byte(v>>8), byte(v>>16))
	}
	return out[:n]
}

// Consumed returns the recorded draws of this execution.
func (t *Tape) Consumed() []uint32 { return t.Rec }
