// Package gen draws workloads from the tape.
package gen

import (
	"fmt"
	"sort"
	"strings"

	"github.com/bufbuild/verif/tape"
)

var dirNames = []string{"", "a", "b", "a/x", "b/y", "c/z/w"}
var baseNames = []string{"one", "two", "three", "four", "five", "six", "seven", "eight", "nine", "ten"}
var exts = []string{".proto", ".proto", ".txt", ".md", ""}

// Files draws a prefix-free set of 1..maxFiles files. Contents are small, with
// an occasional large file to force multi-chunk copies.
func Files(t *tape.Tape, minFiles, maxFiles int, allowLarge bool) map[string][]byte {
	n := t.Range("nfiles", minFiles, maxFiles)
	out := map[string][]byte{}
	for i := 0; i < n; i++ {
		dir := tape.Pick(t, "dir", dirNames)
		base := baseNames[i%len(baseNames)]
		ext := tape.Pick(t, "ext", exts)
		p := base + ext
		if dir != "" {
			p = dir + "/" + p
		}
		out[p] = Content(t, p, allowLarge)
	}
	return out
}

// Content draws file content tagged with its path so that contents are unique.
func Content(t *tape.Tape, tag string, allowLarge bool) []byte {
	kind := t.Draw("ckind", 8)
	var size int
	switch {
	case kind == 1:
		size = 0
	case kind == 7 && allowLarge:
		size = 33000 + t.Draw("clarge", 70000)
	case kind == 6 && allowLarge:
		// exactly at, just below and just above the buffer sizes copy loops use
		size = []int{4096, 8192, 32768, 65536}[t.Draw("cboundary", 4)] + t.Draw("cdelta", 3) - 1
	default:
		size = 1 + t.Draw("csize", 200)
	}
	if size == 0 {
		return []byte{}
	}
	var b strings.Builder
	fmt.Fprintf(&b, "// %s #%d\n", tag, t.Draw("cnonce", 1000))
	for b.Len() < size {
		fmt.Fprintf(&b, "line %d of %s\n", b.Len(), tag)
	}
	return []byte(b.String()[:size])
}

// SortedPaths returns the sorted keys.
func SortedPaths(m map[string][]byte) []string {
	ps := make([]string, 0, len(m))
	for p := range m {
		ps = append(ps, p)
	}
	sort.Strings(ps)
	return ps
}

// Describe renders a file map compactly for samples.
func Describe(m map[string][]byte) map[string]int {
	out := map[string]int{}
	for p, d := range m {
		out[p] = len(d)
	}
	return out
}
