// Package storesim decides C14 (every bucket implementation and combinator
// refines one path->bytes map over arbitrary operation histories) and the
// history clause of C13 (no path lets any bucket touch anything outside its
// root), by driving random compositions of real buckets through tape-drawn
// histories of interleaved micro-steps next to independently written models.
package storesim

import (
	"archive/tar"
	"bytes"
	"context"
	"errors"
	"fmt"
	"github.com/anishathalye/porcupine"
	bufcli "github.com/bufbuild/buf/private/buf/cmd/buf"
	"github.com/bufbuild/buf/private/bufpkg/bufmodule/bufmodulestore"
	"github.com/bufbuild/buf/private/pkg/app"
	"github.com/bufbuild/buf/private/pkg/app/appcmd"
	"github.com/bufbuild/buf/private/pkg/filelock"
	"github.com/bufbuild/verif/modgen"
	"io"
	"os"
	"os/exec"
	"path/filepath"
	"sort"
	"strings"
	"sync"
	"sync/atomic"
	"time"

	"github.com/bufbuild/buf/private/bufpkg/bufcas"
	"github.com/bufbuild/buf/private/bufpkg/bufconfig"
	"github.com/bufbuild/buf/private/bufpkg/bufprotoplugin"
	"github.com/bufbuild/buf/private/pkg/osext"
	"github.com/bufbuild/buf/private/pkg/slogext"
	"github.com/bufbuild/buf/private/pkg/storage"
	"github.com/bufbuild/buf/private/pkg/storage/storagearchive"
	"github.com/bufbuild/buf/private/pkg/storage/storagemem"
	"github.com/bufbuild/buf/private/pkg/storage/storageos"
	"github.com/bufbuild/buf/private/pkg/thread"
	"github.com/bufbuild/verif/engine"
	"github.com/bufbuild/verif/sched"
	"github.com/bufbuild/verif/simfs"
	"github.com/bufbuild/verif/tape"
	"github.com/klauspost/compress/zip"
	"google.golang.org/protobuf/proto"
	"google.golang.org/protobuf/types/pluginpb"
)

// ---- independent lexical path resolver (the reference for C13 / spellings) ----

// resolve returns the normal form of a path and whether it escapes its root
// (absolute, or pops above the root at any point of a left-to-right scan after
// cancelling "name/.." pairs).
func resolve(p string) (string, bool) {
	if strings.HasPrefix(p, "/") {
		return "", true
	}
	var stack []string
	for _, c := range strings.Split(p, "/") {
		switch c {
		case "", ".":
		case "..":
			if len(stack) == 0 {
				return "", true
			}
			stack = stack[:len(stack)-1]
		default:
			stack = append(stack, c)
		}
	}
	if len(stack) == 0 {
		return ".", false
	}
	return strings.Join(stack, "/"), false
}

// under says whether key lies path-wise under prefix ("." = everything).
func under(prefix, key string) bool {
	if prefix == "." {
		return true
	}
	return key == prefix || strings.HasPrefix(key, prefix+"/")
}

// ---- models ----

type base struct {
	name    string
	kind    string          // mem | os | ossym
	links   map[string]bool // planted symbolic links (kind os only): never objects
	guard   string          // the directory that holds this root's sibling sentinels
	dirLink bool            // the root contains "dl", a link to the sibling directory outside
	// linkedDir: in a bucket that follows links, this top-level directory of the root is a link to
	// linkTarget, a directory elsewhere: the objects below it are objects of the bucket like any other
	linkedDir  string
	linkTarget string
	bucket     storage.ReadWriteBucket
	dir        string // os root
	model      map[string]string
	everDir    map[string]bool
	// in-flight puts by base path
	inflight map[string]*putHandle
}

type view interface {
	label() string
	rb() storage.ReadBucket
	wb() storage.WriteBucket // nil when read-only
	// content returns the expected objects, the keys for which Get/Stat are
	// ambiguous (present in two members of a union), the keys at which Walk
	// must fail, and the keys whose visibility is currently undefined.
	contents() *contents
	// sources lists the base objects a (normalised) view path or prefix can touch.
	sources(norm string) []loc
	// target maps a (normalised, non-escaping, non-root) view path to the base object a write lands on.
	target(norm string) (*base, string)
	roots() []*base
}

type loc struct {
	b *base
	p string
}

// joinNorm2 joins a view prefix and a view path; the root prefix "." maps a path to itself.
func joinNorm2(prefix, n string) string {
	if prefix == "." {
		return n
	}
	return joinNorm(prefix, n)
}

func joinNorm(prefix, n string) string {
	if n == "." {
		return prefix
	}
	return prefix + "/" + n
}

type contents struct {
	objs    map[string]string
	dup     map[string]bool
	walkDup map[string]bool
	undef   map[string]bool
}

func newContents() *contents {
	return &contents{objs: map[string]string{}, dup: map[string]bool{}, walkDup: map[string]bool{}, undef: map[string]bool{}}
}

type baseView struct{ b *base }

func (v baseView) label() string                   { return v.b.name + "(" + v.b.kind + ")" }
func (v baseView) rb() storage.ReadBucket          { return v.b.bucket }
func (v baseView) wb() storage.WriteBucket         { return v.b.bucket }
func (v baseView) roots() []*base                  { return []*base{v.b} }
func (v baseView) target(n string) (*base, string) { return v.b, n }
func (v baseView) sources(n string) []loc          { return []loc{{v.b, n}} }
func (v baseView) contents() *contents {
	out := newContents()
	for k, c := range v.b.model {
		out.objs[k] = c
	}
	for p, h := range v.b.inflight {
		if h.visible {
			delete(out.objs, p)
			out.undef[p] = true
		}
		if h.atomic && v.b.kind != "mem" {
			// the temp file of an in-flight atomic disk put is visible next to its target
			d := filepath.Dir(p)
			if d == "." {
				out.undef["<tmp>"] = true
			} else {
				out.undef[d+"/<tmp>"] = true
			}
		}
	}
	return out
}

type mapView struct {
	inner  view
	prefix string
	r      storage.ReadBucket
	w      storage.WriteBucket
}

func (v *mapView) label() string           { return "map[" + v.prefix + "](" + v.inner.label() + ")" }
func (v *mapView) rb() storage.ReadBucket  { return v.r }
func (v *mapView) wb() storage.WriteBucket { return v.w }
func (v *mapView) roots() []*base          { return v.inner.roots() }
func (v *mapView) target(n string) (*base, string) {
	return v.inner.target(joinNorm2(v.prefix, n))
}
func (v *mapView) sources(n string) []loc { return v.inner.sources(joinNorm2(v.prefix, n)) }
func (v *mapView) contents() *contents {
	in := v.inner.contents()
	if v.prefix == "." {
		return in
	}
	out := newContents()
	cut := func(src map[string]bool, dst map[string]bool) {
		for k := range src {
			if strings.HasPrefix(k, v.prefix+"/") {
				dst[k[len(v.prefix)+1:]] = true
			}
		}
	}
	for k, c := range in.objs {
		if strings.HasPrefix(k, v.prefix+"/") {
			out.objs[k[len(v.prefix)+1:]] = c
		}
	}
	cut(in.dup, out.dup)
	cut(in.walkDup, out.walkDup)
	cut(in.undef, out.undef)
	return out
}

type filterView struct {
	inner view
	// hidden is a path the filter excludes by name ("" if the matcher is not about one path)
	hidden string
	desc   string
	pred   func(string) bool
	r      storage.ReadBucket
}

func (v *filterView) label() string                 { return "filter[" + v.desc + "](" + v.inner.label() + ")" }
func (v *filterView) rb() storage.ReadBucket        { return v.r }
func (v *filterView) wb() storage.WriteBucket       { return nil }
func (v *filterView) roots() []*base                { return v.inner.roots() }
func (v *filterView) target(string) (*base, string) { return nil, "" }
func (v *filterView) sources(n string) []loc        { return v.inner.sources(n) }
func (v *filterView) contents() *contents {
	in := v.inner.contents()
	out := newContents()
	for k, c := range in.objs {
		if v.pred(k) {
			out.objs[k] = c
		}
	}
	for k := range in.dup {
		if v.pred(k) {
			out.dup[k] = true
		}
	}
	// the inner Walk fails at an ambiguous key before the filter sees it
	out.walkDup = in.walkDup
	out.undef = in.undef
	return out
}

type stripView struct {
	inner view
	r     storage.ReadBucket
}

func (v *stripView) label() string                 { return "strip(" + v.inner.label() + ")" }
func (v *stripView) rb() storage.ReadBucket        { return v.r }
func (v *stripView) wb() storage.WriteBucket       { return nil }
func (v *stripView) roots() []*base                { return v.inner.roots() }
func (v *stripView) target(string) (*base, string) { return nil, "" }
func (v *stripView) sources(n string) []loc        { return v.inner.sources(n) }
func (v *stripView) contents() *contents           { return v.inner.contents() }

type multiView struct {
	members []view
	overlay bool
	r       storage.ReadBucket
}

func (v *multiView) label() string {
	var ls []string
	for _, m := range v.members {
		ls = append(ls, m.label())
	}
	n := "union"
	if v.overlay {
		n = "overlay"
	}
	return n + "(" + strings.Join(ls, ", ") + ")"
}
func (v *multiView) rb() storage.ReadBucket        { return v.r }
func (v *multiView) wb() storage.WriteBucket       { return nil }
func (v *multiView) target(string) (*base, string) { return nil, "" }
func (v *multiView) sources(n string) []loc {
	var out []loc
	for _, m := range v.members {
		out = append(out, m.sources(n)...)
	}
	return out
}
func (v *multiView) roots() []*base {
	var out []*base
	for _, m := range v.members {
		out = append(out, m.roots()...)
	}
	return out
}
func (v *multiView) contents() *contents {
	out := newContents()
	decided := map[string]bool{} // keys settled by an earlier member (object or ambiguity)
	for _, m := range v.members {
		in := m.contents()
		for k := range in.undef {
			out.undef[k] = true
		}
		for k := range in.walkDup {
			out.walkDup[k] = true
		}
		for k, c := range in.objs {
			if in.dup[k] {
				continue
			}
			if decided[k] {
				if !v.overlay {
					out.dup[k] = true
					out.walkDup[k] = true
				}
				continue
			}
			out.objs[k] = c
		}
		for k := range in.dup {
			if decided[k] && v.overlay {
				continue
			}
			out.dup[k] = true
			out.objs[k] = ""
		}
		for k := range in.objs {
			decided[k] = true
		}
		for k := range in.dup {
			decided[k] = true
		}
	}
	return out
}

// ---- handles ----

type putHandle struct {
	v       view
	b       *base
	path    string // base path
	atomic  bool
	woc     storage.WriteObjectCloser
	buf     []byte
	visible bool // non-atomic disk put: visible (partial) from open
}

type getHandle struct {
	v        view
	roc      storage.ReadObjectCloser
	expect   string
	got      []byte
	b        *base
	path     string
	undefine bool
}

// ---- the run ----

type sim struct {
	tp       *tape.Tape
	s        *sched.Sim
	env      *engine.Env
	bases    []*base
	views    []view
	puts     []*putHandle
	gets     []*getHandle
	root     string // scratch/run
	sentinel map[string]string
	// forcePath, when set, is what drawPath returns (composite steps that come back to one path)
	forcePath   string
	prop        string
	ctx         context.Context
	counters    map[string]int
	hostileSeen map[string]struct{}
	opKinds     map[string]struct{}
}

// siblings whose names extend a directory's name with a character that sorts below '/'
// ("a-b", "a.d", "a.txt" next to "a/") separate path-wise from string-wise prefix handling
var universeDirs = []string{"a", "a/x", "b", "b/y", "c", "a-b", "a.d", "b/y.z", ".cfg", ".a", "a/.x"}
var universeNames = []string{"one.proto", "two.proto", "three.txt", "four", "five.proto", "a.txt", "one.proto.bak", "x.y", "sp ace.txt", "two  spaces.proto", "ünï.proto", " lead", "trail ", ".hidden", ".one.proto", "back\\slash.txt", "a\\b.proto", "...", "..a", "a..b", "-dash", "~tilde", "%2e%2e", "x" + longName, ".tmpl", ".tmp.proto", "One.proto", "ONE.PROTO",
	// one single name on unix - whoever turns the backslashes into separators AFTER the path was checked climbs out
	"x\\..\\..\\sentinel-sibling.txt", "y\\..\\..\\..\\sentinel-outer.txt"}

// longName is as long as a file name may be minus one.
var longName = strings.Repeat("n", 200)

var mapPrefixes = []string{"a", "a/x", "b", "zz", ".", ".cfg"}

// C13 is about containment only: when this engine runs on its behalf, a bucket that merely
// disagrees with the map model (C14's subject) is counted, not reported; and the other way round.
var c13Oracles = map[string]bool{"escape-rejected": true, "nothing-outside-root-touched": true, "nothing-outside-root-read": true}

func (m *sim) violate(oracle, site, format string, args ...any) {
	if (m.prop == "C13") != c13Oracles[oracle] {
		m.counters["other-property:"+oracle]++
		return
	}
	msg := fmt.Sprintf(format, args...)
	msg = strings.ReplaceAll(msg, m.env.Scratch, "<scratch>")
	m.s.Violate(oracle, m.prop+"|"+oracle+"|"+site, "%s", msg)
}

func (m *sim) newBase(i int) *base {
	b := &base{name: fmt.Sprintf("B%d", i), model: map[string]string{}, everDir: map[string]bool{}, inflight: map[string]*putHandle{}, links: map[string]bool{}}
	b.kind = tape.Pick(m.tp, "basekind", []string{"mem", "os", "os", "ossym"})
	switch b.kind {
	case "mem":
		b.bucket = storagemem.NewReadWriteBucket()
	default:
		// the root directory's own name may contain what a shell or a pattern matcher would interpret
		rootName := tape.Pick(m.tp, "rootname", []string{"root", "root", "root[v2]", "ro ot", "röt", "root*", "r?ot", "{r,oot}"})
		b.dir = filepath.Join(m.root, "outer", b.name, rootName)
		b.guard = filepath.Dir(b.dir)
		inCwd := m.tp.Draw("rootincwd", 4) == 3
		if inCwd {
			// a root INSIDE the working directory, below a chain of directories that hold nothing
			// else: removing "empty parent directories" must stop at the root
			b.guard = filepath.Join(m.root, "outer", "B", "in"+b.name)
			b.dir = filepath.Join(b.guard, "e1", "e2", rootName)
		}
		if err := os.MkdirAll(b.dir, 0o755); err != nil {
			panic(err)
		}
		var opts []storageos.ProviderOption
		var bopts []storageos.ReadWriteBucketOption
		if b.kind == "ossym" {
			opts = append(opts, storageos.ProviderWithSymlinks())
			bopts = append(bopts, storageos.ReadWriteBucketWithSymlinksIfSupported())
		}
		// the root as the caller spells it: absolute, or relative to the working directory (which
		// is the sibling directory "outer/B", a string prefix of every root's parent)
		rootArg := b.dir
		switch m.tp.Draw("rootspell", 4) {
		case 1:
			rootArg = "../" + b.name + "/" + rootName
		case 2:
			rootArg = "../B/../" + b.name + "/./" + rootName
		case 3:
			rootArg = "./../" + b.name + "//" + rootName + "/"
		}
		if inCwd {
			rootArg = tape.Pick(m.tp, "rootspellincwd", []string{b.dir, "in" + b.name + "/e1/e2/" + rootName, "./in" + b.name + "/e1//e2/" + rootName + "/", "../B/in" + b.name + "/e1/e2/" + rootName, "../B/./in" + b.name + "/e1/../e1/e2/" + rootName})
			m.s.Probe("root-inside-working-directory")
		}
		if rootArg != b.dir {
			m.s.Probe("relative-root")
		}
		bk, err := storageos.NewProvider(opts...).NewReadWriteBucket(rootArg, bopts...)
		if err != nil {
			panic(err)
		}
		b.bucket = bk
		if b.kind == "os" && m.tp.Draw("plantlink", 3) == 2 {
			// a symbolic link at an object path, pointing at a file outside the root: this bucket
			// does not follow links, so there is no object at that path for get, stat and walk
			lp := m.drawUniversePath()
			ext := filepath.Join(b.dir, filepath.FromSlash(lp))
			if err := os.MkdirAll(filepath.Dir(ext), 0o755); err != nil {
				panic(err)
			}
			if err := os.Symlink(filepath.Join(m.root, "outer", "sentinel-outer.txt"), ext); err != nil {
				panic(err)
			}
			b.links[lp] = true
			m.markDirs(b, lp)
			m.s.Probe("planted-link")
		}
		if b.kind == "ossym" && m.tp.Draw("linkeddir", 3) == 2 {
			b.linkedDir = tape.Pick(m.tp, "linkeddirname", []string{"a", "b", "c", ".cfg"})
			b.linkTarget = filepath.Join(m.root, "linktargets", b.name)
			if err := os.MkdirAll(b.linkTarget, 0o755); err != nil {
				panic(err)
			}
			if err := os.Symlink(b.linkTarget, filepath.Join(b.dir, b.linkedDir)); err != nil {
				panic(err)
			}
			b.everDir[b.linkedDir] = true
			m.s.Probe("linked-directory-in-symlink-bucket")
		}
		if b.kind == "os" && m.tp.Draw("plantdirlink", 3) == 2 {
			// a link to a DIRECTORY outside the root: this bucket does not follow links, so nothing
			// can be created "in" it
			if err := os.Symlink(filepath.Join(b.guard, "sib"), filepath.Join(b.dir, "dl")); err != nil {
				panic(err)
			}
			b.links["dl"] = true
			b.dirLink = true
		}
	}
	return b
}

func (m *sim) drawUniversePath() string {
	d := m.tp.Draw("udir", len(universeDirs)+1)
	n := tape.Pick(m.tp, "uname", universeNames)
	if d == 0 {
		return n
	}
	return universeDirs[d-1] + "/" + n
}

// spell returns a tape-chosen equivalent or hostile spelling of a normal path.
func (m *sim) spell(norm string) string {
	switch m.tp.Draw("spell", 12) {
	case 1:
		return "./" + norm
	case 2:
		return strings.Replace(norm, "/", "//", 1)
	case 3:
		return strings.Replace(norm, "/", "/./", 1)
	case 4:
		if i := strings.Index(norm, "/"); i > 0 {
			return norm[:i] + "/q/.." + norm[i:]
		}
		return "q/../" + norm
	case 5:
		return norm + "/"
	case 6:
		return norm + "/."
	}
	return norm
}

var hostileAtoms = []string{"..", ".", "", "n", "a", "d.t", "x"}

// hostile draws a short path over the component alphabet of C13.
func (m *sim) hostile() string {
	n := 1 + m.tp.Draw("hlen", 5)
	parts := make([]string, n)
	for i := range parts {
		parts[i] = tape.Pick(m.tp, "hatom", hostileAtoms)
	}
	p := strings.Join(parts, "/")
	if m.tp.Draw("habs", 6) == 1 {
		p = "/" + p
	}
	return p
}

func (m *sim) drawPath() (string, bool) {
	if m.forcePath != "" {
		return m.forcePath, false
	}
	if m.tp.Draw("hostile?", 4) == 3 {
		return m.hostile(), true
	}
	if m.tp.Draw("dirpath?", 10) == 9 {
		return tape.Pick(m.tp, "udir2", universeDirs), false
	}
	return m.spell(m.drawUniversePath()), false
}

func (m *sim) drawPrefix() string {
	switch m.tp.Draw("pfxkind", 8) {
	case 0:
		return ""
	case 1:
		return "."
	case 2:
		return m.hostile()
	case 3:
		// string-but-not-path prefix of something
		p := m.drawUniversePath()
		if len(p) > 2 {
			return p[:len(p)-2]
		}
		return p
	case 4:
		return m.spell(m.drawUniversePath()) // prefix equal to a file
	default:
		return m.spell(tape.Pick(m.tp, "pfxdir", universeDirs))
	}
}

func (m *sim) buildViews() {
	nb := 1 + m.tp.Draw("nbases", 3)
	for i := 0; i < nb; i++ {
		b := m.newBase(i)
		m.bases = append(m.bases, b)
		m.views = append(m.views, baseView{b})
	}
	nv := m.tp.Draw("nviews", 6)
	for i := 0; i < nv; i++ {
		inner := m.views[m.tp.Draw("inner", len(m.views))]
		switch m.tp.Draw("vkind", 6) {
		case 0, 1:
			pfx := tape.Pick(m.tp, "mappfx", mapPrefixes)
			mv := &mapView{inner: inner, prefix: pfx}
			if m.tp.Draw("chain", 4) == 3 && strings.Contains(pfx, "/") {
				// the same mapping expressed as a chain of two mappers
				i := strings.Index(pfx, "/")
				mv.r = storage.MapReadBucket(inner.rb(), storage.MapOnPrefix(pfx[:i]), storage.MapOnPrefix(pfx[i+1:]))
				if w := inner.wb(); w != nil {
					mv.w = storage.MapWriteBucket(w, storage.MapOnPrefix(pfx[:i]), storage.MapOnPrefix(pfx[i+1:]))
				}
			} else if m.tp.Draw("rootchain", 4) == 3 && pfx != "." {
				// the same mapping with a root mapper in front
				mv.r = storage.MapReadBucket(inner.rb(), storage.MapOnPrefix("."), storage.MapOnPrefix(pfx))
				if w := inner.wb(); w != nil {
					mv.w = storage.MapWriteBucket(w, storage.MapOnPrefix("."), storage.MapOnPrefix(pfx))
				}
			} else {
				mv.r = storage.MapReadBucket(inner.rb(), storage.MapOnPrefix(pfx))
				if w := inner.wb(); w != nil {
					mv.w = storage.MapWriteBucket(w, storage.MapOnPrefix(pfx))
				}
			}
			m.views = append(m.views, mv)
		case 2:
			fv := &filterView{inner: inner}
			switch m.tp.Draw("matcher", 11) {
			case 8:
				// the extension is what follows the LAST dot of the last element, dot included; "" = no dot at all
				fv.desc, fv.pred = "ext=(none)", func(p string) bool { return extOf(p) == "" }
				fv.r = storage.FilterReadBucket(inner.rb(), storage.MatchPathExt(""))
			case 9:
				// no extension has two dots, none lacks its dot: these match nothing (a suffix test would)
				arg := tape.Pick(m.tp, "extarg", []string{".proto.bak", "proto", "o", ".one.proto"})
				fv.desc, fv.pred = "ext="+arg, func(p string) bool { return extOf(p) == arg }
				fv.r = storage.FilterReadBucket(inner.rb(), storage.MatchPathExt(arg))
			case 10:
				arg := tape.Pick(m.tp, "extarg2", []string{".bak", ".txt", ".", ".y"})
				fv.desc, fv.pred = "not(ext="+arg+")", func(p string) bool { return extOf(p) != arg }
				fv.r = storage.FilterReadBucket(inner.rb(), storage.MatchNot(storage.MatchPathExt(arg)))
			case 5:
				fv.hidden = "b/five.proto"
				fv.desc, fv.pred = "equal(a/x/one.proto)", func(p string) bool { return p == "a/x/one.proto" }
				fv.r = storage.FilterReadBucket(inner.rb(), storage.MatchPathEqual("a/x/one.proto"))
			case 6:
				fv.hidden = "b/five.proto"
				fv.desc, fv.pred = "not(equal(b/five.proto))", func(p string) bool { return p != "b/five.proto" }
				fv.r = storage.FilterReadBucket(inner.rb(), storage.MatchNot(storage.MatchPathEqual("b/five.proto")))
			case 7:
				fv.hidden = "a/x/one.proto"
				fv.desc, fv.pred = "not(eqOrContained(a/x))", func(p string) bool { return !(p == "a/x" || strings.HasPrefix(p, "a/x/")) }
				fv.r = storage.FilterReadBucket(inner.rb(), storage.MatchNot(storage.MatchPathEqualOrContained("a/x")))
			case 0:
				fv.desc, fv.pred = "ext=.proto", func(p string) bool { return strings.HasSuffix(p, ".proto") }
				fv.r = storage.FilterReadBucket(inner.rb(), storage.MatchPathExt(".proto"))
			case 1:
				fv.desc, fv.pred = "contained(a)", func(p string) bool { return strings.HasPrefix(p, "a/") }
				fv.r = storage.FilterReadBucket(inner.rb(), storage.MatchPathContained("a"))
			case 2:
				fv.desc, fv.pred = "eqOrContained(a/x)", func(p string) bool { return p == "a/x" || strings.HasPrefix(p, "a/x/") }
				fv.r = storage.FilterReadBucket(inner.rb(), storage.MatchPathEqualOrContained("a/x"))
			case 3:
				fv.desc, fv.pred = "not(ext=.proto)", func(p string) bool { return !strings.HasSuffix(p, ".proto") }
				fv.r = storage.FilterReadBucket(inner.rb(), storage.MatchNot(storage.MatchPathExt(".proto")))
			default:
				fv.desc = "or(base=four, contained(b))"
				fv.pred = func(p string) bool { return filepath.Base(p) == "four" || strings.HasPrefix(p, "b/") }
				fv.r = storage.FilterReadBucket(inner.rb(), storage.MatchOr(storage.MatchPathBase("four"), storage.MatchPathContained("b")))
			}
			m.views = append(m.views, fv)
		case 3:
			m.views = append(m.views, &stripView{inner: inner, r: storage.StripReadBucketExternalPaths(inner.rb())})
		default:
			other := m.views[m.tp.Draw("inner2", len(m.views))]
			mv := &multiView{members: []view{inner, other}, overlay: m.tp.Draw("overlay", 2) == 1}
			if m.tp.Draw("third", 4) == 3 {
				mv.members = append(mv.members, m.views[m.tp.Draw("inner3", len(m.views))])
			}
			var rbs []storage.ReadBucket
			for _, x := range mv.members {
				rbs = append(rbs, x.rb())
			}
			if mv.overlay {
				mv.r = storage.OverlayReadBucket(rbs...)
			} else {
				mv.r = storage.MultiReadBucket(rbs...)
			}
			m.views = append(m.views, mv)
		}
	}
}

// markAnchors records the base paths that map views treat as directories: no
// file may ever be created there.
func (m *sim) markAnchors() {
	for _, v := range m.views {
		mv, ok := v.(*mapView)
		if !ok || mv.prefix == "." {
			continue
		}
		for _, l := range mv.inner.sources(mv.prefix) {
			l.b.everDir[l.p] = true
			m.markDirs(l.b, l.p)
		}
	}
}

// belowParentRoot says whether the view is a prefix-mapped view (possibly filtered or stripped on top)
// whose root is NOT the root of what it maps: the spellings of its own root ("", ".", "a/..") then
// name the parent's entry called like the prefix, which is outside the view.
func belowParentRoot(v view) bool {
	switch x := v.(type) {
	case *mapView:
		return x.prefix != "." || belowParentRoot(x.inner)
	case *filterView:
		return belowParentRoot(x.inner)
	case *stripView:
		return belowParentRoot(x.inner)
	}
	return false
}

// rootAccepted reports a single-object operation that accepted a spelling of the view's root.
func (m *sim) rootAccepted(v view, oracle, site, op, p string) {
	if belowParentRoot(v) {
		m.violate("escape-rejected", op+"|view-root", "%s(%q) on %s names the view's own root - the parent's entry called like the prefix, which is not inside the view - but returned no error", op, p, v.label())
	}
	m.violate(oracle, site, "%s(%q) (the root) on %s returned no error", op, p, v.label())
}

// extOf is the extension of a normal path: from the last dot of its last element on, "" without a dot.
func extOf(p string) string {
	base := p[strings.LastIndex(p, "/")+1:]
	if i := strings.LastIndex(base, "."); i >= 0 {
		return base[i:]
	}
	return ""
}

func sameRoots(a, b view) bool {
	for _, x := range a.roots() {
		for _, y := range b.roots() {
			if x == y {
				return true
			}
		}
	}
	return false
}

func (m *sim) busy(b *base) bool { return len(b.inflight) > 0 }

// blocked says whether the view path would make a file act as a directory (or
// the reverse) in some base: the universe must stay prefix-free, otherwise disk
// and memory legitimately differ.
func (m *sim) blocked(v view, norm string, creating bool) bool {
	for _, l := range v.sources(norm) {
		if creating && l.b.links[l.p] {
			return true
		}
		for d := filepath.Dir(l.p); d != "." && d != "/"; d = filepath.Dir(d) {
			if _, ok := l.b.model[d]; ok {
				return true
			}
			if l.b.links[d] {
				return true
			}
			if l.b.inflight[d] != nil {
				return true
			}
		}
		if creating {
			if l.b.everDir[l.p] {
				return true
			}
			for k := range l.b.model {
				if strings.HasPrefix(k, l.p+"/") {
					return true
				}
			}
			for k := range l.b.inflight {
				if strings.HasPrefix(k, l.p+"/") {
					return true
				}
			}
		}
	}
	return false
}

func (m *sim) markDirs(b *base, p string) {
	for d := filepath.Dir(p); d != "." && d != "/"; d = filepath.Dir(d) {
		b.everDir[d] = true
	}
}

func classify(err error) string {
	switch {
	case err == nil:
		return "ok"
	case storage.IsNotExist(err):
		return "notexist"
	case storage.IsExistsMultipleLocations(err):
		return "multiple"
	default:
		return "error"
	}
}

// masked says whether a base path currently has undefined visibility.
func (m *sim) masked(b *base, p string) bool {
	h := b.inflight[p]
	return h != nil && h.visible
}

// viewMasked: does any root of v have a masked path that maps to view path? conservative: any in-flight visible put on its roots.
func (m *sim) viewUndefined(v view) bool {
	for _, b := range v.roots() {
		for _, h := range b.inflight {
			if h.visible || (h.atomic && b.kind != "mem") {
				return true
			}
		}
	}
	return false
}

func (m *sim) stepGetOpen(v view) {
	p, _ := m.drawPath()
	norm, esc := resolve(p)
	if !esc && m.blocked(v, norm, false) {
		return
	}
	ct := v.contents()
	want, dup := ct.objs, ct.dup
	roc, err := v.rb().Get(m.ctx, p)
	m.s.Event("get %s %q -> %s", v.label(), p, classify(err))
	site := "get"
	if esc {
		m.hostileSeen[p] = struct{}{}
		if err == nil {
			_ = roc.Close()
			m.violate("escape-rejected", site, "Get(%q) on %s escapes the root but returned no error", p, v.label())
		}
		return
	}
	if ct.undef[norm] {
		if err == nil {
			_ = roc.Close()
		}
		return
	}
	c, ok := want[norm]
	switch {
	case norm == ".":
		if err == nil {
			_ = roc.Close()
			m.rootAccepted(v, "get-matches-model", site, "Get", p)
		}
	case dup[norm]:
		if err == nil {
			_ = roc.Close()
			m.violate("union-reports-duplicate", site, "Get(%q) on %s: path present in two members but no error", p, v.label())
		} else if !storage.IsExistsMultipleLocations(err) {
			m.violate("union-reports-duplicate", site, "Get(%q) on %s: path present in two members, got %v", p, v.label(), err)
		} else {
			m.s.Probe("union-duplicate-detected")
		}
	case !ok:
		if err == nil {
			data, _ := io.ReadAll(roc)
			_ = roc.Close()
			if fv, isFilter := v.(*filterView); isFilter {
				if _, hidden := fv.inner.contents().objs[norm]; hidden {
					// the object exists below the view but the view does not contain it
					m.violate("nothing-outside-root-read", site+"|filter", "Get(%q) on %s returned an object that the filter excludes", p, v.label())
				}
			}
			for k, c := range m.sentinel {
				if c != "" && c != "x" && string(data) == c {
					m.violate("nothing-outside-root-read", site, "Get(%q) on %s returned the content of %s, a file outside the root", p, v.label(), k)
					break
				}
			}
			m.violate("get-matches-model", site, "Get(%q) on %s returned an object the model does not have", p, v.label())
		} else if !storage.IsNotExist(err) {
			m.violate("notexist-classified", site, "Get(%q) on %s: absent object reported as %v instead of not-exist", p, v.label(), err)
		}
	default:
		if err != nil {
			m.violate("get-matches-model", site, "Get(%q) on %s failed with %v but the model holds %d bytes", p, v.label(), err, len(c))
			return
		}
		if roc.Path() != norm {
			m.violate("get-matches-model", site+"|reported-path-not-normal", "Get(%q) on %s reported the path as %q: the object's path is %q in every spelling", p, v.label(), roc.Path(), norm)
		}
		h := &getHandle{v: v, roc: roc, expect: c}
		if len(v.roots()) == 1 {
			h.b = v.roots()[0]
		}
		m.gets = append(m.gets, h)
	}
}

func (m *sim) stepRead(h *getHandle, idx int) {
	n := 1 + m.tp.Draw("readn", 300)
	if m.tp.Draw("readall", 3) == 0 {
		n = 1 << 20
	}
	buf := make([]byte, n)
	k, err := h.roc.Read(buf)
	h.got = append(h.got, buf[:k]...)
	if err == io.EOF || (err == nil && k == 0 && len(h.got) >= len(h.expect)) {
		// drain to be sure of EOF
		rest, _ := io.ReadAll(h.roc)
		h.got = append(h.got, rest...)
		_ = h.roc.Close()
		if !h.undefine && string(h.got) != h.expect {
			m.violate("reader-sees-object-in-full", "read", "reader on %s got %d bytes, expected the %d bytes present when it was opened", h.v.label(), len(h.got), len(h.expect))
		}
		m.gets = append(m.gets[:idx], m.gets[idx+1:]...)
		m.s.Probe("reader-completed")
		return
	}
	if err != nil {
		_ = h.roc.Close()
		m.violate("reader-sees-object-in-full", "read", "read error on %s: %v", h.v.label(), err)
		m.gets = append(m.gets[:idx], m.gets[idx+1:]...)
	}
}

func (m *sim) stepStat(v view) {
	p, _ := m.drawPath()
	norm, esc := resolve(p)
	if !esc && m.blocked(v, norm, false) {
		return
	}
	ct := v.contents()
	want, dup := ct.objs, ct.dup
	info, err := v.rb().Stat(m.ctx, p)
	m.s.Event("stat %s %q -> %s", v.label(), p, classify(err))
	if esc {
		m.hostileSeen[p] = struct{}{}
		if err == nil {
			m.violate("escape-rejected", "stat", "Stat(%q) on %s escapes the root but returned no error", p, v.label())
		}
		return
	}
	if ct.undef[norm] {
		return
	}
	_, ok := want[norm]
	switch {
	case norm == ".":
		if err == nil {
			m.rootAccepted(v, "stat-matches-model", "stat", "Stat", p)
		}
	case dup[norm]:
		mv, isMulti := v.(*multiView)
		if isMulti && mv.overlay {
			return
		}
		if err == nil {
			m.violate("union-reports-duplicate", "stat", "Stat(%q) on %s: path present in two members but no error", p, v.label())
		} else {
			m.s.Probe("union-duplicate-detected")
		}
	case !ok:
		if err == nil {
			if fv, isFilter := v.(*filterView); isFilter {
				if _, hidden := fv.inner.contents().objs[norm]; hidden {
					m.violate("nothing-outside-root-read", "stat|filter", "Stat(%q) on %s found an object that the filter excludes", p, v.label())
				}
			}
			m.violate("stat-matches-model", "stat", "Stat(%q) on %s found an object the model does not have", p, v.label())
		} else if !storage.IsNotExist(err) {
			m.violate("notexist-classified", "stat", "Stat(%q) on %s: absent object reported as %v instead of not-exist", p, v.label(), err)
		}
	default:
		if err != nil {
			m.violate("stat-matches-model", "stat", "Stat(%q) on %s failed with %v but the model has the object", p, v.label(), err)
		} else if n2, _ := resolve(info.Path()); n2 != norm {
			m.violate("stat-matches-model", "stat", "Stat(%q) on %s reported path %q", p, v.label(), info.Path())
		} else if info.Path() != norm {
			// storage.ObjectInfo: "This path will always be normalized, validated, and non-empty."
			m.violate("stat-matches-model", "stat|reported-path-not-normal", "Stat(%q) on %s reported the path as %q: the object's path is %q in every spelling", p, v.label(), info.Path(), norm)
		}
	}
}

func (m *sim) walkCheck(v view, prefix string, site string) {
	norm, esc := resolve(prefix)
	if !esc && m.blocked(v, norm, false) {
		return
	}
	ct := v.contents()
	var got []string
	err := v.rb().Walk(m.ctx, prefix, func(info storage.ObjectInfo) error {
		got = append(got, info.Path())
		return nil
	})
	if site == "walk" {
		m.s.Event("walk %s %q -> %s n=%d", v.label(), prefix, classify(err), len(got))
	}
	if esc {
		m.hostileSeen[prefix] = struct{}{}
		if err == nil {
			m.violate("escape-rejected", site, "Walk(%q) on %s escapes the root but returned no error (visited %d objects)", prefix, v.label(), len(got))
		}
		return
	}
	expect := map[string]bool{}
	for k := range ct.objs {
		if under(norm, k) && !ct.dup[k] {
			expect[k] = true
		}
	}
	mustFail := false
	for k := range ct.walkDup {
		if under(norm, k) {
			mustFail = true
		}
	}
	if mustFail {
		if err == nil {
			m.violate("union-reports-duplicate", site, "Walk(%q) on %s: a path is present in two members but Walk reported no error", prefix, v.label())
		} else {
			m.s.Probe("union-duplicate-detected")
		}
		return
	}
	if err != nil {
		for k := range ct.undef {
			if under(norm, k) || strings.HasSuffix(k, "<tmp>") {
				return // an object with undefined visibility may legitimately confuse a union
			}
		}
		m.violate("walk-matches-model", site, "Walk(%q) on %s failed: %v", prefix, v.label(), err)
		return
	}
	tmpDirs := map[string]bool{}
	for k := range ct.undef {
		if strings.HasSuffix(k, "<tmp>") {
			tmpDirs[filepath.Dir(k)] = true
		}
	}
	seen := map[string]int{}
	for _, g := range got {
		if ct.undef[g] || (simfs.IsTemp(g) && tmpDirs[filepath.Dir(g)]) {
			continue
		}
		n2, e2 := resolve(g)
		if e2 || n2 != g {
			m.violate("walk-matches-model", site, "Walk(%q) on %s reported non-normal path %q", prefix, v.label(), g)
		}
		seen[g]++
	}
	for _, g := range simfs.SortedKeys(seen) {
		n := seen[g]
		if n > 1 {
			m.violate("walk-each-once", site, "Walk(%q) on %s visited %q %d times", prefix, v.label(), g, n)
		}
		if !expect[g] {
			m.violate("walk-matches-model", site, "Walk(%q) on %s visited %q which the model does not place under that prefix", prefix, v.label(), g)
		}
	}
	for _, k := range simfs.SortedKeys(expect) {
		if seen[k] == 0 && !ct.undef[k] {
			m.violate("walk-matches-model", site, "Walk(%q) on %s did not visit %q", prefix, v.label(), k)
		}
	}
}

// canWalkInterleaved: a writable view over disk buckets only (a memory bucket holds its lock for the
// whole walk, so nothing can interleave there), nothing in flight, no ambiguous keys.
func (m *sim) canWalkInterleaved(v view) bool {
	if len(m.puts) > 0 || len(m.gets) > 0 {
		return false
	}
	for _, b := range v.roots() {
		if b.kind == "mem" || m.busy(b) || b.linkedDir != "" || b.dirLink {
			return false
		}
	}
	ct := v.contents()
	return len(ct.walkDup) == 0 && len(ct.dup) == 0 && len(ct.undef) == 0 && len(ct.objs) >= 2
}

// stepWalkInterleaved: one Walk of everything in the view whose callback is a scheduling point. While
// the walker is parked in its k-th callback another client deletes objects and puts objects atomically
// (tape-drawn), then the walker goes on. Oracle: a walk that reports success has visited every object
// that was there, untouched, from before the walk started until after it ended, each visited path once,
// and nothing that was never there. (Objects deleted or put meanwhile may or may not be visited; a walk
// may also fail.)
func (m *sim) stepWalkInterleaved(walked view) {
	// the other client writes through the walked view itself, or - when that one is read-only (a filter, a
	// union, an overlay, a stripped view) or by the tape's choice - straight into one of the buckets below it
	v := walked
	if roots := walked.roots(); walked.wb() == nil || m.tp.Draw("wil-below", 3) == 2 {
		v = baseView{roots[m.tp.Draw("wil-root", len(roots))]}
	}
	if v != walked {
		m.s.Probe("walk-interleaved-writes-below-the-view")
	}
	m.stepWalkInterleaved2(walked, v)
}

func (m *sim) stepWalkInterleaved2(walked, v view) {
	snap := func() map[string]string {
		out := map[string]string{}
		for k, c := range walked.contents().objs {
			out[k] = c
		}
		return out
	}
	before := snap()
	touched := map[string]bool{}
	ever := map[string]bool{}
	for k := range before {
		ever[k] = true
	}
	// what the walked view holds changes with every write below it: whatever differs between two
	// consecutive states has been touched; a key that became ambiguous in a union ends the checking
	prev, ambiguous := before, false
	note := func() {
		cur := snap()
		for k, c := range cur {
			ever[k] = true
			if pc, ok := prev[k]; !ok || pc != c {
				touched[k] = true
			}
		}
		for k := range prev {
			if _, ok := cur[k]; !ok {
				touched[k] = true
			}
		}
		prev = cur
		if ct := walked.contents(); len(ct.walkDup) > 0 || len(ct.dup) > 0 {
			ambiguous = true
		}
	}
	type cb struct{ path string }
	atCallback := make(chan cb)
	resume := make(chan struct{})
	done := make(chan error, 1)
	// in some walks the callback reads the object it was given (as storage.WalkReadObjects does) after the
	// other client has acted, and hands back whatever error that read produced
	readInCallback := m.tp.Draw("wil-read", 3) == 2
	var callbackErr error
	go func() {
		done <- walked.rb().Walk(m.ctx, "", func(info storage.ObjectInfo) error {
			atCallback <- cb{info.Path()}
			<-resume
			if readInCallback {
				if _, err := storage.ReadPath(m.ctx, walked.rb(), info.Path()); err != nil {
					callbackErr = err
					return err
				}
			}
			return nil
		})
	}()
	var visited []string
	ndel, nput := 0, 0
	var walkErr error
loop:
	for {
		select {
		case c := <-atCallback:
			visited = append(visited, c.path)
			for n := m.tp.Draw("wil-actions", 3); n > 0; n-- {
				if m.tp.Draw("wil-kind", 3) != 0 {
					// delete an object that is there
					keys := simfs.SortedKeys(v.contents().objs)
					if len(keys) == 0 {
						continue
					}
					k := keys[m.tp.Draw("wil-key", len(keys))]
					b, bp := v.target(k)
					if b == nil || m.blocked(v, k, false) || b.links[bp] {
						continue
					}
					if _, ok := b.model[bp]; !ok {
						continue
					}
					err := v.wb().Delete(m.ctx, k)
					m.s.Event("walk-interleaved %s: at callback %d delete %q -> %s", v.label(), len(visited), k, classify(err))
					if err != nil {
						m.violate("delete-matches-model", "walk-interleaved", "Delete(%q) on %s during a walk failed: %v", k, v.label(), err)
						continue
					}
					delete(b.model, bp)
					note()
					ndel++
				} else {
					// put an object atomically: a temporary file appears beside it and is renamed
					k := m.drawUniversePath()
					b, bp := v.target(k)
					if b == nil || b.inflight[bp] != nil || m.blocked(v, k, true) {
						continue
					}
					content := fmt.Sprintf("put during walk %d/%d", m.counters["steps"], nput)
					err := storage.PutPath(m.ctx, v.wb(), k, []byte(content), storage.PutWithAtomic())
					m.s.Event("walk-interleaved %s: at callback %d atomic put %q -> %s", v.label(), len(visited), k, classify(err))
					if err != nil {
						m.violate("put-matches-model", "walk-interleaved", "atomic put of %q on %s during a walk failed: %v", k, v.label(), err)
						continue
					}
					b.model[bp] = content
					m.markDirs(b, bp)
					note()
					nput++
				}
			}
			resume <- struct{}{}
		case walkErr = <-done:
			break loop
		}
	}
	m.s.Event("walk-interleaved %s (writes through %s) -> %s visited=%d deleted=%d put=%d", walked.label(), v.label(), classify(walkErr), len(visited), ndel, nput)
	if ambiguous {
		return
	}
	if ndel+nput > 0 {
		m.s.Probe("walk-interleaved-with-writes")
	}
	if callbackErr != nil {
		// (the object the callback was given had been deleted by the time it read it)
		m.s.Probe("walk-interleaved-callback-failed")
		if walkErr == nil {
			m.violate("walk-matches-model", "walk-interleaved|callback-error-swallowed", "a Walk of %s reported success although its callback had returned an error (%s) and the walk had stopped there, after %d of %d objects", walked.label(), classify(callbackErr), len(visited), len(before))
		}
		return
	}
	if walkErr != nil {
		m.s.Probe("walk-interleaved-failed")
		return
	}
	seen := map[string]int{}
	for _, g := range visited {
		seen[g]++
	}
	after := snap()
	for _, g := range simfs.SortedKeys(seen) {
		if seen[g] > 1 {
			m.violate("walk-each-once", "walk-interleaved", "a Walk of %s with writes in between visited %q %d times", walked.label(), g, seen[g])
		}
		if !ever[g] && !simfs.IsTemp(g) {
			m.violate("walk-matches-model", "walk-interleaved", "a Walk of %s with writes in between visited %q, which was not there at any time", walked.label(), g)
		}
	}
	for _, k := range simfs.SortedKeys(before) {
		if touched[k] || after[k] != before[k] {
			continue
		}
		if seen[k] == 0 {
			m.violate("walk-matches-model", "walk-interleaved|stable-object-missed", "a Walk of %s reported success but did not visit %q, which was there, untouched, before, during and after the walk (%d objects deleted and %d put while it ran; it visited %d of %d)", walked.label(), k, ndel, nput, len(visited), len(before))
		}
	}
}

// walkFails: must a Walk of everything in v fail because of an ambiguous key?
func walkFails(v view) bool {
	return len(v.contents().walkDup) > 0
}

// prefixFree says whether no key is a proper path prefix of another.
func prefixFree(keys []string) bool {
	set := map[string]bool{}
	for _, k := range keys {
		set[k] = true
	}
	for _, k := range keys {
		for d := filepath.Dir(k); d != "." && d != "/"; d = filepath.Dir(d) {
			if set[d] {
				return false
			}
		}
	}
	return true
}

func (m *sim) stepPutOpen(v view) {
	p, _ := m.drawPath()
	norm, esc := resolve(p)
	atomic := m.tp.Draw("atomic", 2) == 1
	var opts []storage.PutOption
	if atomic {
		opts = append(opts, storage.PutWithAtomic())
	}
	var b *base
	var bp string
	if !esc && norm != "." {
		b, bp = v.target(norm)
		if b.inflight[bp] != nil {
			return // one in-flight put per object
		}
		if m.blocked(v, norm, true) {
			return
		}
	}
	woc, err := v.wb().Put(m.ctx, p, opts...)
	m.s.Event("put-open %s %q atomic=%v -> %s", v.label(), p, atomic, classify(err))
	if esc || norm == "." {
		if esc {
			m.hostileSeen[p] = struct{}{}
		}
		if err == nil {
			// must not be left open: abandon by closing (whatever it does is checked by the state oracles)
			_ = woc.Close()
			if esc {
				m.violate("escape-rejected", "put", "Put(%q) on %s escapes the root but returned no error", p, v.label())
			} else {
				m.rootAccepted(v, "put-matches-model", "put", "Put", p)
			}
		}
		return
	}
	if err != nil {
		m.violate("put-matches-model", "put", "Put(%q) on %s failed: %v", p, v.label(), err)
		return
	}
	h := &putHandle{v: v, b: b, path: bp, atomic: atomic, woc: woc}
	if b.kind != "mem" && !atomic {
		h.visible = true
		// readers that hold this object open now see undefined content
		for _, g := range m.gets {
			g.undefine = g.undefine || sharesBase(g.v, b)
		}
	}
	b.inflight[bp] = h
	m.markDirs(b, bp)
	m.puts = append(m.puts, h)
}

// undefineReaders: a non-atomic overwrite on disk truncates the inode an open
// reader holds; what that reader sees is documented as undefined.
func (m *sim) undefineReaders(v view) {
	for _, b := range v.roots() {
		if b.kind == "mem" {
			continue
		}
		for _, g := range m.gets {
			g.undefine = g.undefine || sharesBase(g.v, b)
		}
	}
}

func sharesBase(v view, b *base) bool {
	for _, r := range v.roots() {
		if r == b {
			return true
		}
	}
	return false
}

func (m *sim) stepWrite(h *putHandle) {
	n := m.tp.Draw("wsize", 400)
	if m.tp.Draw("wlarge", 12) == 11 {
		n = 40000 + m.tp.Draw("wlarge2", 30000)
	}
	chunk := make([]byte, n)
	seed := m.tp.Draw("wseed", 251)
	for i := range chunk {
		chunk[i] = byte('a' + (seed+i*7)%26)
	}
	k, err := h.woc.Write(chunk)
	m.s.Event("write %s n=%d", h.path, n)
	if err != nil || k != n {
		m.violate("put-matches-model", "write", "Write of %d bytes to %s returned (%d, %v)", n, h.path, k, err)
	}
	h.buf = append(h.buf, chunk...)
}

func (m *sim) stepClose(h *putHandle, idx int) {
	err := h.woc.Close()
	m.s.Event("close %s -> %s", h.path, classify(err))
	if err != nil {
		m.violate("put-matches-model", "close", "Close of put to %s failed: %v", h.path, err)
	}
	delete(h.b.inflight, h.path)
	h.b.model[h.path] = string(h.buf)
	m.puts = append(m.puts[:idx], m.puts[idx+1:]...)
	if m.tp.Draw("dblclose", 8) == 7 {
		if err := h.woc.Close(); err == nil && h.b.kind == "mem" {
			m.violate("put-matches-model", "close", "second Close of a memory put returned nil")
		}
	}
}

func (m *sim) stepDelete(v view) {
	p, _ := m.drawPath()
	norm, esc := resolve(p)
	var b *base
	var bp string
	if !esc && norm != "." {
		b, bp = v.target(norm)
		if m.busy(b) || m.blocked(v, norm, false) || b.links[bp] {
			return
		}
		if b.linkedDir != "" && bp == b.linkedDir {
			// (Delete of the path of a directory LINK removes the link, and with it every object below:
			// a path that is a proper prefix of object paths is outside the prefix-free domain)
			return
		}
	}
	err := v.wb().Delete(m.ctx, p)
	m.s.Event("delete %s %q -> %s", v.label(), p, classify(err))
	if esc || norm == "." {
		if esc {
			m.hostileSeen[p] = struct{}{}
		}
		if err == nil {
			if esc {
				m.violate("escape-rejected", "delete", "Delete(%q) on %s escapes the root but returned no error", p, v.label())
			} else {
				m.rootAccepted(v, "delete-matches-model", "delete", "Delete", p)
			}
		}
		return
	}
	if _, ok := b.model[bp]; ok {
		if err != nil {
			m.violate("delete-matches-model", "delete", "Delete(%q) on %s failed: %v", p, v.label(), err)
			return
		}
		delete(b.model, bp)
		return
	}
	// absent object: nothing may change (checked by the state oracle); the error
	// must be not-exist unless the path is or was a directory (disk keeps empty
	// directories that no bucket can see, and removes them on Delete).
	if !b.everDir[bp] {
		if err == nil {
			m.violate("delete-matches-model", "delete", "Delete(%q) of an absent object on %s returned nil", p, v.label())
		} else if !storage.IsNotExist(err) {
			m.violate("notexist-classified", "delete", "Delete(%q) of an absent object on %s returned %v instead of not-exist", p, v.label(), err)
		}
	}
}

func (m *sim) stepDeleteAll(v view) {
	prefix := m.drawPrefix()
	norm, esc := resolve(prefix)
	for _, b := range v.roots() {
		if m.busy(b) {
			return
		}
	}
	if !esc && m.blocked(v, norm, false) {
		return
	}
	err := v.wb().DeleteAll(m.ctx, prefix)
	m.s.Event("deleteall %s %q -> %s", v.label(), prefix, classify(err))
	if esc {
		m.hostileSeen[prefix] = struct{}{}
		if err == nil {
			m.violate("escape-rejected", "deleteall", "DeleteAll(%q) on %s escapes the root but returned no error", prefix, v.label())
		}
		return
	}
	if err != nil {
		m.violate("delete-matches-model", "deleteall", "DeleteAll(%q) on %s failed: %v", prefix, v.label(), err)
		return
	}
	for k := range v.contents().objs {
		if under(norm, k) {
			b, bp := v.target(k)
			delete(b.model, bp)
		}
	}
}

func (m *sim) stepCopy(src, dst view) {
	if sameRoots(src, dst) || m.viewUndefined(src) {
		return
	}
	for _, b := range dst.roots() {
		if m.busy(b) {
			return
		}
	}
	ct := src.contents()
	want := ct.objs
	// a file may not land on or under a directory / object of the destination
	db := dst.roots()[0]
	var all []string
	for k := range db.model {
		all = append(all, k)
	}
	for l := range db.links {
		all = append(all, l)
	}
	for k := range want {
		_, bp := dst.target(k)
		if db.everDir[bp] || db.links[bp] {
			return
		}
		if _, ok := db.model[bp]; !ok {
			all = append(all, bp)
		}
	}
	if !prefixFree(all) {
		return
	}
	var opts []storage.CopyOption
	if m.tp.Draw("copyatomic", 2) == 1 {
		opts = append(opts, storage.CopyWithAtomic())
	} else {
		m.undefineReaders(dst)
	}
	n, err := storage.Copy(m.ctx, src.rb(), dst.wb(), opts...)
	m.s.Event("copy %s -> %s: n=%d %s", src.label(), dst.label(), n, classify(err))
	if walkFails(src) {
		if err == nil {
			m.violate("union-reports-duplicate", "copy", "Copy from %s with a path present in two members returned nil", src.label())
		}
		// resynchronise the destination model with whatever was copied before the error
		m.resync(db)
		return
	}
	if err != nil {
		m.violate("copy-matches-model", "copy", "Copy %s -> %s failed: %v", src.label(), dst.label(), err)
		m.resync(db)
		return
	}
	if n != len(want) {
		m.violate("copy-matches-model", "copy", "Copy %s -> %s reported %d files, the source has %d", src.label(), dst.label(), n, len(want))
	}
	for k, c := range want {
		b, bp := dst.target(k)
		b.model[bp] = c
		m.markDirs(b, bp)
	}
	m.s.Probe("copy-between-kinds")
}

func (m *sim) resync(b *base) {
	st, err := m.actual(b)
	if err == nil {
		b.model = st
	}
}

func (m *sim) stepArchive(v view) {
	if m.viewUndefined(v) {
		return
	}
	want := v.contents().objs
	if walkFails(v) {
		return
	}
	useZip := m.tp.Draw("zip", 2) == 1
	var buf bytes.Buffer
	var err error
	if useZip {
		err = storagearchive.Zip(m.ctx, v.rb(), &buf, m.tp.Draw("deflate", 2) == 1)
	} else {
		err = storagearchive.Tar(m.ctx, v.rb(), &buf)
	}
	if err != nil {
		m.violate("archive-round-trip", "archive", "archiving %s failed: %v", v.label(), err)
		return
	}
	out := storagemem.NewReadWriteBucket()
	if useZip {
		err = storagearchive.Unzip(m.ctx, bytes.NewReader(buf.Bytes()), int64(buf.Len()), out)
	} else {
		err = storagearchive.Untar(m.ctx, bytes.NewReader(buf.Bytes()), out)
	}
	if err != nil {
		m.violate("archive-round-trip", "archive", "unarchiving %s failed: %v", v.label(), err)
		return
	}
	got, err := simfs.Snapshot(m.ctx, out)
	if err != nil {
		panic(err)
	}
	if d := diff(want, got); d != "" {
		m.violate("archive-round-trip", "archive", "tar/zip round trip of %s differs from the model: %s", v.label(), d)
	}
	m.s.Event("archive %s zip=%v n=%d", v.label(), useZip, len(got))
	m.s.Probe("archive-round-trip")
}

// stepArchiveOptions archives a view and extracts it with strip-components and a path
// matcher into a fresh bucket; the result must be exactly the stripped, matched objects.
func (m *sim) stepArchiveOptions(v view) {
	if m.viewUndefined(v) || walkFails(v) {
		return
	}
	want := v.contents().objs
	strip := 1 + m.tp.Draw("ostrip", 2)
	useMatcher := m.tp.Draw("omatch", 2) == 1
	useZip := m.tp.Draw("ozip", 2) == 1
	match := func(p string) bool { return !useMatcher || strings.HasSuffix(p, ".proto") }
	expect := map[string]string{}
	for k, c := range want {
		parts := strings.Split(k, "/")
		if len(parts) <= strip {
			continue
		}
		stripped := strings.Join(parts[strip:], "/")
		if !match(stripped) {
			continue
		}
		if _, dup := expect[stripped]; dup {
			return // two objects land on one path: which one survives is archive order, not modelled
		}
		expect[stripped] = c
	}
	var keys []string
	for k := range expect {
		keys = append(keys, k)
	}
	if !prefixFree(keys) {
		return
	}
	var buf bytes.Buffer
	var err error
	if useZip {
		err = storagearchive.Zip(m.ctx, v.rb(), &buf, true)
	} else {
		err = storagearchive.Tar(m.ctx, v.rb(), &buf)
	}
	if err != nil {
		m.violate("archive-round-trip", "archive-options", "archiving %s failed: %v", v.label(), err)
		return
	}
	out := storagemem.NewReadWriteBucket()
	var matcher func(string) bool
	if useMatcher {
		matcher = match
	}
	if useZip {
		err = storagearchive.Unzip(m.ctx, bytes.NewReader(buf.Bytes()), int64(buf.Len()), out,
			storagearchive.UnzipWithStripComponentCount(uint32(strip)), storagearchive.UnzipWithFilePathMatcher(matcher))
	} else {
		err = storagearchive.Untar(m.ctx, bytes.NewReader(buf.Bytes()), out,
			storagearchive.UntarWithStripComponentCount(uint32(strip)), storagearchive.UntarWithFilePathMatcher(matcher))
	}
	if err != nil {
		m.violate("archive-round-trip", "archive-options", "extracting %s with strip=%d failed: %v", v.label(), strip, err)
		return
	}
	got, err := simfs.Snapshot(m.ctx, out)
	if err != nil {
		panic(err)
	}
	if d := diff(expect, got); d != "" {
		m.violate("archive-round-trip", "archive-options", "extracting %s with strip=%d matcher=%v zip=%v differs from the model: %s", v.label(), strip, useMatcher, useZip, d)
	}
	m.s.Event("archive-options %s zip=%v strip=%d matcher=%v n=%d", v.label(), useZip, strip, useMatcher, len(got))
	m.s.Probe("archive-with-options")
}

// stepForeignArchive extracts an archive written by another tool: directory entries, "./"
// prefixes, an entry that appears twice (the later one wins), empty and large files.
func (m *sim) stepForeignArchive() {
	type entry struct {
		name string
		data string
		dir  bool
	}
	big := strings.Repeat("0123456789abcdef", 2500+m.tp.Draw("fabig", 3000))
	entries := []entry{
		{name: "pkg/", dir: true},
		{name: "./pkg/a.txt", data: "first"},
		{name: "pkg/sub/", dir: true},
		{name: "pkg/sub/empty.txt", data: ""},
		{name: "pkg/sub/big.bin", data: big},
		{name: "pkg/a.txt", data: "second"},
		{name: "top.txt", data: "top"},
		{name: "pkg/./sub/../b.txt", data: "b"},
	}
	// tape-chosen order of the non-directory entries that do not shadow each other
	useZip := m.tp.Draw("fazip", 2) == 1
	strip := m.tp.Draw("fastrip", 2)
	var buf bytes.Buffer
	if useZip {
		zw := zip.NewWriter(&buf)
		for _, e := range entries {
			name := e.name
			if e.dir {
				if _, err := zw.CreateHeader(&zip.FileHeader{Name: name}); err != nil {
					return
				}
				continue
			}
			w, err := zw.CreateHeader(&zip.FileHeader{Name: name, Method: zip.Deflate})
			if err != nil {
				return
			}
			_, _ = w.Write([]byte(e.data))
		}
		_ = zw.Close()
	} else {
		tw := tar.NewWriter(&buf)
		for _, e := range entries {
			h := &tar.Header{Typeflag: tar.TypeReg, Name: e.name, Size: int64(len(e.data)), Mode: 0o644}
			if e.dir {
				h = &tar.Header{Typeflag: tar.TypeDir, Name: e.name, Mode: 0o755}
			}
			if err := tw.WriteHeader(h); err != nil {
				return
			}
			if !e.dir {
				_, _ = tw.Write([]byte(e.data))
			}
		}
		_ = tw.Close()
	}
	expect := map[string]string{}
	for _, e := range entries {
		if e.dir {
			continue
		}
		norm, _ := resolve(e.name)
		parts := strings.Split(norm, "/")
		if len(parts) <= strip {
			continue
		}
		expect[strings.Join(parts[strip:], "/")] = e.data
	}
	for _, kind := range []string{"mem", "os"} {
		var out storage.ReadWriteBucket
		if kind == "mem" {
			out = storagemem.NewReadWriteBucket()
		} else {
			dir := filepath.Join(m.root, fmt.Sprintf("foreign%d", m.counters["steps"]))
			_ = os.MkdirAll(dir, 0o755)
			b, err := storageos.NewProvider().NewReadWriteBucket(dir)
			if err != nil {
				panic(err)
			}
			out = b
			defer os.RemoveAll(dir)
		}
		var err error
		if useZip {
			err = storagearchive.Unzip(m.ctx, bytes.NewReader(buf.Bytes()), int64(buf.Len()), out, storagearchive.UnzipWithStripComponentCount(uint32(strip)))
		} else {
			err = storagearchive.Untar(m.ctx, bytes.NewReader(buf.Bytes()), out, storagearchive.UntarWithStripComponentCount(uint32(strip)))
		}
		if err != nil {
			m.violate("archive-round-trip", "foreign-archive", "extracting a foreign archive (zip=%v strip=%d) into %s failed: %v", useZip, strip, kind, err)
			continue
		}
		got, err := simfs.Snapshot(m.ctx, out)
		if err != nil {
			panic(err)
		}
		if d := diff(expect, got); d != "" {
			m.violate("archive-round-trip", "foreign-archive", "foreign archive (zip=%v strip=%d) extracted into %s differs from its entries: %s", useZip, strip, kind, d)
		}
	}
	m.s.Event("foreign-archive zip=%v strip=%d", useZip, strip)
	m.s.Probe("foreign-archive")
}

// stepFileNodes: content-addressed file nodes and manifests must refuse paths that are not
// normal relative paths (they become bucket paths when a file set is written out).
func (m *sim) stepFileNodes() {
	p := m.hostile()
	norm, esc := resolve(p)
	digest, err := bufcas.NewDigestForContent(strings.NewReader("x"))
	if err != nil {
		panic(err)
	}
	_, nerr := bufcas.NewFileNode(p, digest)
	_, perr := bufcas.ParseFileNode(digest.String() + "  " + p)
	bad := esc || norm != p || p == "" || norm == "."
	m.s.Event("filenode %q -> new=%v parse=%v", p, nerr == nil, perr == nil)
	if bad && (nerr == nil || perr == nil) {
		if esc {
			m.hostileSeen["filenode:"+p] = struct{}{}
			m.violate("escape-rejected", "filenode", "a file node with the path %q (which escapes) was accepted (NewFileNode err=%v, ParseFileNode err=%v)", p, nerr, perr)
		}
	}
	if !bad && (nerr != nil || perr != nil) {
		m.violate("put-matches-model", "filenode", "a file node with the normal relative path %q was rejected: %v / %v", p, nerr, perr)
	}
	m.s.Probe("filenode-paths")
}

// ---- concurrent callers: linearizability against a map of registers ----

type linIn struct {
	op   string // put | get | delete
	path string
	val  string
}

type linOut struct {
	val    string
	absent bool
}

var linModel = porcupine.Model{
	Partition: func(history []porcupine.Operation) [][]porcupine.Operation {
		byPath := map[string][]porcupine.Operation{}
		var paths []string
		for _, op := range history {
			p := op.Input.(linIn).path
			if _, ok := byPath[p]; !ok {
				paths = append(paths, p)
			}
			byPath[p] = append(byPath[p], op)
		}
		sort.Strings(paths)
		var out [][]porcupine.Operation
		for _, p := range paths {
			out = append(out, byPath[p])
		}
		return out
	},
	Init: func() interface{} { return "\x00absent" },
	Step: func(state, input, output interface{}) (bool, interface{}) {
		st, in, out := state.(string), input.(linIn), output.(linOut)
		switch in.op {
		case "put":
			return true, in.val
		case "delete":
			if st == "\x00absent" {
				return out.absent, st
			}
			return !out.absent, "\x00absent"
		default: // get
			if st == "\x00absent" {
				return out.absent, st
			}
			return !out.absent && out.val == st, st
		}
	},
	Equal: func(a, b interface{}) bool { return a == b },
}

// stepConcurrent lets three goroutines put, get and delete on two paths of one fresh bucket at
// the same time, running freely (no scheduling points, nothing drawn while they run; GOMAXPROCS is
// 1, 4 or 16 depending on the worker), records invocation and return of every operation with a
// global sequence number and checks the history against a map of registers: every put is one
// complete value that becomes visible at one instant, every get returns one of them in full.
func (m *sim) stepConcurrent() {
	kind := tape.Pick(m.tp, "linkind", []string{"mem", "os", "os-bucket-per-client"})
	var bucket storage.ReadWriteBucket
	perClient := map[int]storage.ReadWriteBucket{}
	if kind == "mem" {
		bucket = storagemem.NewReadWriteBucket()
	} else {
		dir := filepath.Join(m.root, fmt.Sprintf("lin%d", m.counters["lin"]))
		if err := os.MkdirAll(dir, 0o755); err != nil {
			panic(err)
		}
		defer os.RemoveAll(dir)
		b, err := storageos.NewProvider().NewReadWriteBucket(dir)
		if err != nil {
			panic(err)
		}
		bucket = b
		if kind == "os-bucket-per-client" {
			// every client opens the directory itself, as separate processes sharing a cache do
			for c := 0; c < 3; c++ {
				cb, err := storageos.NewProvider().NewReadWriteBucket(dir)
				if err != nil {
					panic(err)
				}
				perClient[c] = cb
			}
		}
	}
	m.counters["lin"]++
	paths := []string{"k/one.txt", "k/two.txt"}
	// objects nobody touches while the clients run, sorted before, between and after the contended
	// paths: every walk must visit each of them exactly once
	stable := []string{"k/a-stable.txt", "k/p-stable.txt", "k/z-stable.txt"}
	for _, p := range stable {
		if err := storage.PutPath(context.Background(), bucket, p, []byte("stable "+p)); err != nil {
			panic(err)
		}
	}
	const clients, opsPerClient = 3, 7
	// the script is drawn before anything runs
	script := make([][]linIn, clients)
	for c := 0; c < clients; c++ {
		for k := 0; k < opsPerClient; k++ {
			in := linIn{op: tape.Pick(m.tp, "linop", []string{"put", "get", "get", "delete", "put"}), path: paths[m.tp.Draw("linpath", len(paths))]}
			if in.op == "put" {
				// unique values of very different sizes: a reader that sees a mixture is attributable
				in.val = fmt.Sprintf("c%d-%d:", c, k) + strings.Repeat(string(rune('a'+c)), 1+m.tp.Draw("linsize", 3)*20000)
			}
			script[c] = append(script[c], in)
		}
	}
	var seq atomic.Int64
	results := make([][]porcupine.Operation, clients)
	errs := make([][]string, clients)
	var wg sync.WaitGroup
	for c := 0; c < clients; c++ {
		wg.Add(1)
		go func(c int) {
			defer wg.Done()
			defer func() {
				if r := recover(); r != nil {
					errs[c] = append(errs[c], fmt.Sprintf("panic: %v", r))
				}
			}()
			ctx := context.Background()
			bucket := bucket
			if cb := perClient[c]; cb != nil {
				bucket = cb
			}
			for _, in := range script[c] {
				call := seq.Add(1)
				var out linOut
				switch in.op {
				case "put":
					// (the disk bucket replaces objects atomically only when asked to)
					if err := storage.PutPath(ctx, bucket, in.path, []byte(in.val), storage.PutWithAtomic()); err != nil {
						errs[c] = append(errs[c], fmt.Sprintf("put %s: %v", in.path, err))
						continue
					}
				case "delete":
					err := bucket.Delete(ctx, in.path)
					switch {
					case err == nil:
					case storage.IsNotExist(err):
						out.absent = true
					default:
						errs[c] = append(errs[c], fmt.Sprintf("delete %s: %v", in.path, err))
						continue
					}
				default:
					data, err := storage.ReadPath(ctx, bucket, in.path)
					switch {
					case err == nil:
						out.val = string(data)
					case storage.IsNotExist(err):
						out.absent = true
					default:
						errs[c] = append(errs[c], fmt.Sprintf("get %s: %v", in.path, err))
						continue
					}
				}
				ret := seq.Add(1)
				results[c] = append(results[c], porcupine.Operation{ClientId: c, Input: in, Call: call, Output: out, Return: ret})
			}
		}(c)
	}
	// a fourth goroutine walks the directory all the time: whatever the others do, a walk visits
	// each path at most once, only paths that can exist, and does not fail
	var walkProblems []string
	stop := make(chan struct{})
	walkerDone := make(chan struct{})
	go func() {
		defer close(walkerDone)
		for n := 0; n < 200; n++ {
			select {
			case <-stop:
				return
			default:
			}
			seen := map[string]int{}
			err := bucket.Walk(context.Background(), "k", func(info storage.ObjectInfo) error {
				seen[info.Path()]++
				return nil
			})
			if err != nil {
				walkProblems = append(walkProblems, fmt.Sprintf("walk failed: %v", err))
				return
			}
			for p, k := range seen {
				if k > 1 {
					walkProblems = append(walkProblems, fmt.Sprintf("walk visited %s %d times", p, k))
				}
				// (the temporary file of an atomic put in flight sits next to its target and is
				// listed by a concurrent walk of the directory: not an object anybody put, and not
				// what the property speaks about - see DESIGN §8)
				if p != paths[0] && p != paths[1] && !simfs.IsTemp(p) && !strings.HasSuffix(p, "-stable.txt") {
					walkProblems = append(walkProblems, fmt.Sprintf("walk visited %q, which nobody ever put", p))
				}
			}
			for _, p := range stable {
				// (memory bucket only: a walk of a DISK directory in which another goroutine renames
				// temporary files into place can end early without error - storageos turns the
				// not-exist error of the vanished entry into "nothing to walk" - an observation about
				// the unchanged code outside the listed properties, see DESIGN §8)
				if seen[p] == 0 && kind == "mem" {
					walkProblems = append(walkProblems, fmt.Sprintf("walk did not visit %s, which existed before and was never touched", p))
				}
			}
			if len(walkProblems) > 0 {
				return
			}
		}
	}()
	wg.Wait()
	close(stop)
	<-walkerDone
	sort.Strings(walkProblems)
	for i, wp := range walkProblems {
		if i == 0 || wp != walkProblems[i-1] {
			m.violate("walk-each-once", "concurrent|"+kind, "walking a %s bucket while three goroutines put, get and delete: %s", kind, wp)
		}
	}
	var history []porcupine.Operation
	for c := range results {
		history = append(history, results[c]...)
		for _, e := range errs[c] {
			m.violate("get-matches-model", "concurrent|"+kind, "concurrent callers on a %s bucket: %s", kind, e)
		}
	}
	switch porcupine.CheckOperationsTimeout(linModel, history, 5*time.Second) {
	case porcupine.Illegal:
		var lines []string
		sort.Slice(history, func(i, j int) bool { return history[i].Call < history[j].Call })
		for _, op := range history {
			in, out := op.Input.(linIn), op.Output.(linOut)
			res := fmt.Sprintf("%d bytes %.8s", len(out.val), out.val)
			if out.absent {
				res = "absent"
			}
			if in.op == "put" {
				res = fmt.Sprintf("%d bytes %.8s", len(in.val), in.val)
			}
			lines = append(lines, fmt.Sprintf("[%d,%d] c%d %s %s -> %s", op.Call, op.Return, op.ClientId, in.op, in.path, res))
		}
		m.violate("reader-sees-object-in-full", "concurrent|"+kind, "history of %d concurrent operations on a %s bucket is not linearizable as a map of whole objects:\n%s", len(history), kind, strings.Join(lines, "\n"))
	case porcupine.Ok:
		m.s.Probe("concurrent-history-linearizable")
	default:
		m.s.Probe("concurrent-history-inconclusive")
	}
}

// stepUnionRevisit comes back to ONE path of ONE long-lived union / overlay view: look it up, put
// the same path into another member, look it up again (and once more after deleting it from
// there). Whatever the view remembers from the first look-up, the answers follow the model.
func (m *sim) stepUnionRevisit() {
	var unions []*multiView
	for _, v := range m.views {
		if mv, ok := v.(*multiView); ok {
			unions = append(unions, mv)
		}
	}
	if len(unions) == 0 {
		return
	}
	mv := unions[m.tp.Draw("revisit-view", len(unions))]
	m.forcePath = m.drawUniversePath()
	defer func() { m.forcePath = "" }()
	look := func() {
		m.stepStat(mv)
		m.stepGetOpen(mv)
		// finish the reader at once so that later overwrites do not make it undefined
		if n := len(m.gets); n > 0 && m.gets[n-1].v == view(mv) {
			for len(m.gets) == n {
				m.stepRead(m.gets[n-1], n-1)
			}
		}
	}
	var writable []view
	for _, member := range mv.members {
		if member.wb() != nil {
			writable = append(writable, member)
		}
	}
	if len(writable) == 0 {
		look()
		return
	}
	put := func(target view) {
		before := len(m.puts)
		m.stepPutOpen(target)
		if len(m.puts) == before+1 {
			h := m.puts[before]
			m.stepWrite(h)
			m.stepClose(h, before)
		}
	}
	// the path in one member, then in a second one, then gone from one of them again
	first := writable[m.tp.Draw("revisit-member", len(writable))]
	if m.tp.Draw("revisit-prefill", 4) != 0 {
		put(first)
	}
	look()
	second := writable[m.tp.Draw("revisit-member2", len(writable))]
	put(second)
	look()
	if m.tp.Draw("revisit-delete", 2) == 1 {
		m.stepDelete(tape.Pick(m.tp, "revisit-delete-from", []view{first, second}))
		look()
	}
	m.s.Probe("union-revisited")
}

// stepFilterHidden asks a filtered view, in several equivalent spellings, for an object that exists
// below it but that its matcher excludes by name: every spelling denotes the same (excluded) object.
func (m *sim) stepFilterHidden() {
	var filters []*filterView
	for _, v := range m.views {
		if fv, ok := v.(*filterView); ok && fv.hidden != "" {
			filters = append(filters, fv)
		}
	}
	if len(filters) == 0 {
		return
	}
	fv := filters[m.tp.Draw("hidden-view", len(filters))]
	defer func() { m.forcePath = "" }()
	if fv.inner.wb() != nil {
		// make sure the excluded object exists below the view
		m.forcePath = fv.hidden
		before := len(m.puts)
		m.stepPutOpen(fv.inner)
		if len(m.puts) == before+1 {
			h := m.puts[before]
			m.stepWrite(h)
			m.stepClose(h, before)
		}
	}
	dir, base := filepath.Dir(fv.hidden), filepath.Base(fv.hidden)
	for _, spelled := range []string{fv.hidden, "./" + fv.hidden, fv.hidden + "/.", dir + "/q/../" + base, dir + "//" + base, "q/../" + fv.hidden} {
		m.forcePath = spelled
		m.stepStat(fv)
		m.stepGetOpen(fv)
		if n := len(m.gets); n > 0 && m.gets[n-1].v == view(fv) {
			for len(m.gets) == n {
				m.stepRead(m.gets[n-1], n-1)
			}
		}
	}
	m.s.Probe("filter-excluded-object-asked-for")
}

// stepCachedModule: a cached module's marker file names the directory that holds its files. That
// name comes from the disk, not from buf: a marker whose files_dir leaves the module's own directory
// (pointing at a perfectly valid copy of the files elsewhere in the cache, so that no digest check can
// object) must not make the store read from there.
func (m *sim) stepCachedModule() {
	ctx := context.Background()
	u, err := modgen.New(m.tp, modgen.Options{MaxModules: 1, MaxFiles: 3})
	if err != nil {
		panic(err)
	}
	keys := u.Keys([]int{0})
	datas, err := u.Provider.GetModuleDatasForModuleKeys(ctx, keys)
	if err != nil {
		panic(err)
	}
	var bucket storage.ReadWriteBucket = storagemem.NewReadWriteBucket()
	if m.tp.Draw("cmkind", 2) == 1 {
		dir := filepath.Join(m.root, fmt.Sprintf("cachedmod%d", m.counters["cm"]))
		if err := os.MkdirAll(dir, 0o755); err != nil {
			panic(err)
		}
		defer os.RemoveAll(dir)
		b, err := storageos.NewProvider().NewReadWriteBucket(dir)
		if err != nil {
			panic(err)
		}
		bucket = b
	}
	m.counters["cm"]++
	store := bufmodulestore.NewModuleDataStore(slogext.NopLogger, bucket, filelock.NewNopLocker())
	if err := store.PutModuleDatas(ctx, datas); err != nil {
		m.violate("put-matches-model", "cached-module", "storing a module in a fresh cache failed: %v", err)
		return
	}
	state, err := simfs.Snapshot(ctx, bucket)
	if err != nil {
		panic(err)
	}
	marker := ""
	for _, p := range simfs.SortedKeys(state) {
		if strings.HasSuffix(p, "/module.yaml") {
			marker = p
		}
	}
	if marker == "" || !strings.Contains(state[marker], "files_dir: files") {
		m.violate("harness-reference", "harness|cached-module-layout", "unexpected cache layout: %v", simfs.SortedKeys(state))
		return
	}
	modDir := strings.TrimSuffix(marker, "/module.yaml")
	depth := strings.Count(modDir, "/") + 1
	// move the files out of the module's directory, to the top of the cache
	for p, c := range state {
		if strings.HasPrefix(p, modDir+"/files/") {
			if err := storage.PutPath(ctx, bucket, "elsewhere/files/"+strings.TrimPrefix(p, modDir+"/files/"), []byte(c)); err != nil {
				panic(err)
			}
		}
	}
	if err := bucket.DeleteAll(ctx, modDir+"/files"); err != nil {
		panic(err)
	}
	up := strings.Repeat("../", depth)
	filesDir := tape.Pick(m.tp, "cmspelling", []string{up + "elsewhere/files", "files/../" + up + "elsewhere/files", "./" + up + "elsewhere/./files", up + "elsewhere//files/"})
	if err := storage.PutPath(ctx, bucket, marker, []byte(strings.Replace(state[marker], "files_dir: files", "files_dir: "+filesDir, 1))); err != nil {
		panic(err)
	}
	found, _, err := store.GetModuleDatasForModuleKeys(ctx, keys)
	served := 0
	if err == nil && len(found) == 1 {
		if fb, berr := found[0].Bucket(); berr == nil {
			_ = fb.Walk(ctx, "", func(info storage.ObjectInfo) error {
				if data, rerr := storage.ReadPath(ctx, fb, info.Path()); rerr == nil && len(data) >= 0 {
					served++
				}
				return nil
			})
		}
	}
	m.s.Event("cached-module files_dir=%q found=%d served=%d err=%v", filesDir, len(found), served, err != nil)
	m.hostileSeen["files_dir:"+filesDir] = struct{}{}
	if served > 0 {
		m.violate("escape-rejected", "module-yaml", "a cached module whose marker says files_dir: %s served %d file(s) from outside the module's directory %s", filesDir, served, modDir)
	}
	m.s.Probe("cached-module-files-dir")
}

// stepCLIPath: a --path value of the real `buf build` command that leaves the input directory is
// refused, however it is spelled.
func (m *sim) stepCLIPath() {
	p := m.hostile()
	_, esc := resolve(p)
	input := filepath.Join(m.root, "cliws")
	arg := input + "/" + p
	if strings.HasPrefix(p, "/") {
		arg = p
	}
	out := filepath.Join(m.root, "cliws-out.binpb")
	var stdout, stderr bytes.Buffer
	env := map[string]string{"HOME": filepath.Join(m.root, "clihome"), "BUF_CACHE_DIR": filepath.Join(m.root, "clicache"), "PATH": ""}
	container := app.NewContainer(env, strings.NewReader(""), &stdout, &stderr, "buf", "build", input, "--path", arg, "-o", out)
	err := appcmd.Run(m.ctx, container, bufcli.NewRootCommand("buf"))
	_ = os.Remove(out)
	m.s.Event("cli --path %q -> err=%v", p, err != nil)
	if esc {
		m.hostileSeen["cli-path:"+p] = struct{}{}
		if err == nil {
			m.violate("escape-rejected", "cli-path", "buf build accepted --path %q although it leaves the input directory", arg[len(m.root):])
		}
	}
	m.s.Probe("cli-path-values")
	// the same through an archive input with a sub-directory: --path values are relative to the
	// sub-directory and must stay inside it, also when they leave it and come back ("../a/a.proto")
	// or name its neighbour ("../b/b.proto")
	q := p
	if k := m.tp.Draw("clipath-archive", 4); k > 0 {
		q = []string{"", "../a/a.proto", "../b/b.proto", "../../pkg/a/a.proto"}[k]
	}
	_, escQ := resolve(q)
	var so, se bytes.Buffer
	container = app.NewContainer(env, strings.NewReader(""), &so, &se, "buf", "build", filepath.Join(m.root, "cliws.tar")+"#subdir=pkg/a", "--path", q, "-o", out)
	err = appcmd.Run(m.ctx, container, bufcli.NewRootCommand("buf"))
	_ = os.Remove(out)
	m.s.Event("cli archive --path %q -> err=%v", q, err != nil)
	if escQ {
		m.hostileSeen["cli-archive-path:"+q] = struct{}{}
		if err == nil {
			m.violate("escape-rejected", "cli-path|archive-subdir", "buf build cliws.tar#subdir=pkg/a accepted --path %q although it leaves the sub-directory", q)
		}
	}
	if m.tp.Draw("clipath-git", 6) == 5 {
		m.gitInputWithLinks(env)
	}
}

// gitInputWithLinks: a git repository whose tree contains symbolic links to a file and to a directory
// OUTSIDE the repository, given to the command as a git input: the links are not followed - nothing
// from outside the clone is listed or compiled. (Skipped where there is no git binary.)
func (m *sim) gitInputWithLinks(env map[string]string) {
	gitPath, err := exec.LookPath("git")
	if err != nil {
		return
	}
	repo := filepath.Join(m.root, "clirepo")
	if _, err := os.Stat(repo); err != nil {
		_ = os.MkdirAll(filepath.Join(repo, "proto"), 0o755)
		_ = os.MkdirAll(filepath.Join(m.root, "secretdir"), 0o755)
		_ = os.WriteFile(filepath.Join(m.root, "secretdir", "keys.proto"), []byte("syntax = \"proto3\";\npackage secretdir;\nmessage TopSecretDir {}\n"), 0o644)
		_ = os.WriteFile(filepath.Join(repo, "buf.yaml"), []byte("version: v2\n"), 0o644)
		_ = os.WriteFile(filepath.Join(repo, "proto", "a.proto"), []byte("syntax = \"proto3\";\npackage a;\nmessage A {}\n"), 0o644)
		// (absolute targets: the clone lives elsewhere)
		_ = os.Symlink(filepath.Join(m.root, "secret.proto"), filepath.Join(repo, "proto", "leak.proto"))
		_ = os.Symlink(filepath.Join(m.root, "secretdir"), filepath.Join(repo, "proto", "leakdir"))
		for _, args := range [][]string{{"init", "-q", "-b", "main", "."}, {"add", "-A"}, {"-c", "user.email=sim@example.com", "-c", "user.name=sim", "commit", "-q", "-m", "init"}} {
			cmd := exec.Command(gitPath, args...)
			cmd.Dir = repo
			cmd.Env = []string{"HOME=" + filepath.Join(m.root, "clihome"), "PATH=" + filepath.Dir(gitPath) + ":/usr/bin:/bin", "GIT_CONFIG_NOSYSTEM=1"}
			if out, err := cmd.CombinedOutput(); err != nil {
				m.s.Event("git %v failed: %v %s", args, err, out)
				_ = os.RemoveAll(repo)
				m.sentinel = m.outside()
				return
			}
		}
		// (the repository is part of the surroundings from now on)
		m.sentinel = m.outside()
	}
	genv := map[string]string{}
	for k, v := range env {
		genv[k] = v
	}
	genv["PATH"] = filepath.Dir(gitPath) + ":/usr/bin:/bin"
	var so, se bytes.Buffer
	container := app.NewContainer(genv, strings.NewReader(""), &so, &se, "buf", "ls-files", filepath.Join(repo, ".git")+"#branch=main")
	err = appcmd.Run(m.ctx, container, bufcli.NewRootCommand("buf"))
	m.s.Event("cli git input -> err=%v", err != nil)
	if err != nil || !strings.Contains(so.String(), "a.proto") {
		m.s.Probe("git-input-not-usable")
		return
	}
	if strings.Contains(so.String(), "leak") {
		m.violate("nothing-outside-root-read", "cli-git-input|link", "buf ls-files <repository>/.git#branch=main lists files that exist only OUTSIDE the repository, behind symbolic links of its tree: %s", strings.ReplaceAll(so.String(), "\n", " "))
	}
	m.s.Probe("git-input-with-links")
}

// stepPutThroughDirLink: a put whose parent directory is a link to a directory outside the root of a
// bucket that does not follow links must fail - not create the file out there.
func (m *sim) stepPutThroughDirLink() {
	var cands []*base
	for _, b := range m.bases {
		// (a delete-all may have removed the link since)
		if fi, err := os.Lstat(filepath.Join(b.dir, "dl")); b.dirLink && !m.busy(b) && err == nil && fi.Mode()&os.ModeSymlink != 0 {
			cands = append(cands, b)
		}
	}
	if len(cands) == 0 {
		return
	}
	b := cands[m.tp.Draw("dirlink-base", len(cands))]
	var opts []storage.PutOption
	if m.tp.Draw("dirlink-atomic", 2) == 1 {
		opts = append(opts, storage.PutWithAtomic())
	}
	woc, err := b.bucket.Put(m.ctx, "dl/created.txt", opts...)
	m.s.Event("put through dir link on %s -> %s", b.name, classify(err))
	if err == nil {
		_, _ = woc.Write([]byte("created through a link"))
		_ = woc.Close()
		m.violate("escape-rejected", "put-through-dir-link", "Put(\"dl/created.txt\") on %s, where dl is a link to a directory outside the root, returned no error", b.name)
	}
	m.s.Probe("put-through-dir-link")
	// and nothing can be listed "in" it: a walk whose prefix names the link itself (in any spelling, or as the
	// root of a prefix-mapped view) visits nothing - what the link leads to is outside the root
	prefix := tape.Pick(m.tp, "dirlink-prefix", []string{"dl", "./dl/", "a/../dl", "dl/.", ""})
	var rb storage.ReadBucket = b.bucket
	if prefix == "" {
		rb = storage.MapReadBucket(b.bucket, storage.MapOnPrefix("dl"))
	}
	var seen []string
	werr := rb.Walk(m.ctx, prefix, func(info storage.ObjectInfo) error {
		seen = append(seen, info.Path())
		return nil
	})
	m.s.Event("walk of the dir link on %s prefix %q -> %d objects, %s", b.name, prefix, len(seen), classify(werr))
	if len(seen) > 0 {
		m.violate("nothing-outside-root-read", "walk|dir-link", "Walk(%q) on %s (mapped on \"dl\": %v), where dl is a link to a directory outside the root of a bucket that does not follow links, visited %v", prefix, b.name, prefix == "", seen)
	}
}

// stepConfigDirs: directories supplied by configuration files (workspace directories, module
// paths, exclude paths) are confined to the directory of the configuration file.
func (m *sim) stepConfigDirs() {
	p := m.hostile()
	_, esc := resolve(p)
	type cfg struct {
		site, file, text string
		work             bool
	}
	q := fmt.Sprintf("%q", p)
	cases := []cfg{
		{site: "work-directory", file: "buf.work.yaml", text: "version: v1\ndirectories:\n  - " + q + "\n", work: true},
		{site: "module-path", file: "buf.yaml", text: "version: v2\nmodules:\n  - path: " + q + "\n"},
		{site: "exclude-path", file: "buf.yaml", text: "version: v2\nmodules:\n  - path: .\n    excludes:\n      - " + q + "\n"},
		{site: "v1-exclude", file: "buf.yaml", text: "version: v1\nbuild:\n  excludes:\n    - " + q + "\n"},
	}
	c := cases[m.tp.Draw("cfgcase", len(cases))]
	var err error
	if c.work {
		_, err = bufconfig.ReadBufWorkYAMLFile(strings.NewReader(c.text), c.file)
	} else {
		_, err = bufconfig.ReadBufYAMLFile(strings.NewReader(c.text), c.file)
	}
	m.s.Event("config %s %q -> err=%v", c.site, p, err != nil)
	if esc {
		m.hostileSeen["config:"+p] = struct{}{}
		if err == nil {
			m.violate("escape-rejected", "config|"+c.site, "%s accepted %q as %s although it leaves the directory of the file", c.file, p, c.site)
		}
	}
	m.s.Probe("config-directories")
}

// stepHostileArchive feeds an archive with hostile entry names to Untar/Unzip.
func (m *sim) stepHostileArchive(v view) {
	for _, b := range v.roots() {
		if m.busy(b) {
			return
		}
	}
	nEntries := 1 + m.tp.Draw("hentries", 3)
	strip := uint32(m.tp.Draw("hstrip", 3))
	type entry struct{ name, data string }
	var entries []entry
	anyEsc := false
	for i := 0; i < nEntries; i++ {
		name := m.hostile()
		if m.tp.Draw("hbenign", 3) == 0 {
			name = fmt.Sprintf("arch/e%d.txt", i)
		}
		if name == "" {
			name = ".."
		}
		norm, esc := resolve(name)
		if !esc {
			// where the entry lands after component stripping
			parts := strings.Split(norm, "/")
			landed := "."
			if norm != "." && len(parts) > int(strip) {
				landed = strings.Join(parts[strip:], "/")
			}
			if landed != "." && m.blocked(v, landed, true) {
				name = fmt.Sprintf("arch/e%d.txt", i)
			}
		}
		anyEsc = anyEsc || esc
		entries = append(entries, entry{name, fmt.Sprintf("entry %d", i)})
	}
	useZip := m.tp.Draw("hzip", 2) == 1
	var buf bytes.Buffer
	if useZip {
		zw := zip.NewWriter(&buf)
		for _, e := range entries {
			w, err := zw.CreateHeader(&zip.FileHeader{Name: e.name, Method: zip.Store})
			if err != nil {
				return
			}
			_, _ = w.Write([]byte(e.data))
		}
		_ = zw.Close()
	} else {
		tw := tar.NewWriter(&buf)
		for _, e := range entries {
			if err := tw.WriteHeader(&tar.Header{Typeflag: tar.TypeReg, Name: e.name, Size: int64(len(e.data)), Mode: 0o644}); err != nil {
				return
			}
			_, _ = tw.Write([]byte(e.data))
		}
		_ = tw.Close()
	}
	m.undefineReaders(v)
	var err error
	if useZip {
		err = storagearchive.Unzip(m.ctx, bytes.NewReader(buf.Bytes()), int64(buf.Len()), v.wb(), storagearchive.UnzipWithStripComponentCount(strip))
	} else {
		err = storagearchive.Untar(m.ctx, bytes.NewReader(buf.Bytes()), v.wb(), storagearchive.UntarWithStripComponentCount(strip))
	}
	names := make([]string, len(entries))
	for i, e := range entries {
		names[i] = e.name
		if _, esc := resolve(e.name); esc {
			m.hostileSeen["archive:"+e.name] = struct{}{}
		}
	}
	m.s.Event("hostile-archive %s zip=%v strip=%d names=%q -> %s", v.label(), useZip, strip, names, classify(err))
	if anyEsc && err == nil {
		m.violate("escape-rejected", "unarchive", "unarchiving entries %q into %s returned no error although an entry name escapes", names, v.label())
	}
	// whatever was written inside the root is legitimate: resynchronise models, the
	// containment oracles (sentinels, other bases, outside-of-view) still apply.
	m.resyncView(v)
	m.s.Probe("hostile-archive")
}

// stepPluginResponse writes a plugin response with hostile names into a view.
func (m *sim) stepPluginResponse(v view) {
	for _, b := range v.roots() {
		if m.busy(b) {
			return
		}
	}
	resp := &pluginpb.CodeGeneratorResponse{}
	anyEsc := false
	var names []string
	for i := 0; i < 1+m.tp.Draw("pfiles", 3); i++ {
		name := m.hostile()
		if m.tp.Draw("pbenign", 3) == 0 {
			name = fmt.Sprintf("gen/p%d.txt", i)
		}
		norm, esc := resolve(name)
		if !esc && (norm == "." || m.blocked(v, norm, true)) {
			name = fmt.Sprintf("gen/p%d.txt", i)
		}
		anyEsc = anyEsc || esc
		if esc {
			m.hostileSeen["plugin:"+name] = struct{}{}
		}
		names = append(names, name)
		resp.File = append(resp.File, &pluginpb.CodeGeneratorResponse_File{Name: proto.String(name), Content: proto.String("generated")})
	}
	m.undefineReaders(v)
	err := bufprotoplugin.NewResponseWriter(slogext.NopLogger).WriteResponse(m.ctx, v.wb(), resp)
	m.s.Event("plugin-response %s names=%q -> %s", v.label(), names, classify(err))
	if anyEsc && err == nil {
		m.violate("escape-rejected", "plugin-response", "plugin response with names %q written into %s returned no error although a name escapes", names, v.label())
	}
	m.resyncView(v)
	m.s.Probe("hostile-plugin-response")
}

// resyncView re-reads the subtree a writable view governs into the base model,
// leaving everything outside that subtree to the containment oracle.
func (m *sim) resyncView(v view) {
	b := v.roots()[0]
	st, err := m.actual(b)
	if err != nil {
		return
	}
	// prefix of the view inside its base
	_, probe := v.target("\x00")
	pfx := strings.TrimSuffix(probe, "\x00")
	for k := range b.model {
		if strings.HasPrefix(k, pfx) {
			delete(b.model, k)
		}
	}
	for k, c := range st {
		if strings.HasPrefix(k, pfx) {
			b.model[k] = c
			m.markDirs(b, k)
		}
	}
}

func (m *sim) actual(b *base) (map[string]string, error) {
	if b.kind == "mem" {
		return simfs.Snapshot(context.Background(), b.bucket)
	}
	if _, err := os.Stat(b.dir); os.IsNotExist(err) {
		// DeleteAll of everything removes the root directory itself; the bucket keeps working
		if _, perr := os.Stat(filepath.Dir(b.dir)); perr == nil {
			return map[string]string{}, nil
		}
	}
	st, err := simfs.DirState(b.dir)
	if err != nil || b.linkedDir == "" {
		return st, err
	}
	// what the link leads to, as long as the link is there (DeleteAll of the directory removes the link)
	if fi, lerr := os.Lstat(filepath.Join(b.dir, b.linkedDir)); lerr == nil && fi.Mode()&os.ModeSymlink != 0 {
		behind, err := simfs.DirState(b.linkTarget)
		if err != nil {
			return nil, err
		}
		for k, c := range behind {
			st[b.linkedDir+"/"+k] = c
		}
	}
	return st, nil
}

func diff(want, got map[string]string) string {
	var out []string
	for _, k := range simfs.SortedKeys(want) {
		g, ok := got[k]
		if !ok {
			out = append(out, "missing "+k)
		} else if g != want[k] {
			out = append(out, fmt.Sprintf("differs %s (model %d bytes, actual %d)", k, len(want[k]), len(g)))
		}
	}
	for _, k := range simfs.SortedKeys(got) {
		if _, ok := want[k]; !ok {
			out = append(out, "extra "+k)
		}
	}
	if len(out) > 4 {
		out = append(out[:4], "...")
	}
	return strings.Join(out, "; ")
}

// invariants are evaluated after every step.
func (m *sim) invariants(step string) {
	// 1. every base equals its model (modulo objects whose visibility is undefined)
	for _, b := range m.bases {
		st, err := m.actual(b)
		if err != nil {
			m.violate("state-matches-model", "state", "cannot read %s: %v", b.name, err)
			continue
		}
		want := map[string]string{}
		for k, c := range b.model {
			want[k] = c
		}
		for p, h := range b.inflight {
			if h.visible {
				delete(st, p)
				delete(want, p)
			}
			if h.atomic && b.kind != "mem" {
				for k := range st {
					if simfs.IsTemp(k) && filepath.Dir(k) == filepath.Dir(p) {
						delete(st, k)
					}
				}
			}
		}
		if d := diff(want, st); d != "" {
			m.violate("state-matches-model", "state", "after %s: base %s(%s) differs from the model: %s", step, b.name, b.kind, d)
			m.resync(b)
		}
	}
	// 2. sentinels outside every disk root
	cur := m.outside()
	if d := diff(m.sentinel, cur); d != "" {
		m.violate("nothing-outside-root-touched", "sentinel", "after %s: outside of every bucket root: %s", step, d)
		m.sentinel = cur
	}
}

// outside lists every regular file of the run directory that is not inside a bucket root.
func (m *sim) outside() map[string]string {
	st, _ := simfs.DirState(m.root)
	out := map[string]string{}
	for k, c := range st {
		// (what a followed link leads to belongs to the bucket that follows it)
		// (and the command line's own cache and home directories belong to the command)
		inside := strings.HasPrefix(k, "linktargets/") || strings.HasPrefix(k, "clicache/") || strings.HasPrefix(k, "clihome/")
		for _, b := range m.bases {
			if b.dir != "" {
				rel, _ := filepath.Rel(m.root, b.dir)
				if strings.HasPrefix(k, filepath.ToSlash(rel)+"/") {
					inside = true
				}
			}
		}
		if !inside {
			out[k] = c
		}
	}
	// directories that must continue to exist
	for _, b := range m.bases {
		if b.dir != "" {
			// every directory between the run directory and the root
			var chain []string
			for d := filepath.Dir(b.dir); d != m.root && len(d) > len(m.root); d = filepath.Dir(d) {
				chain = append(chain, d)
			}
			for _, d := range chain {
				if fi, err := os.Stat(d); err != nil || !fi.IsDir() {
					rel, _ := filepath.Rel(m.root, d)
					out["<missing-dir>/"+rel] = "x"
				}
			}
		}
	}
	return out
}

// Run executes one history.
func Run(tp *tape.Tape, env *engine.Env) *engine.Outcome {
	s := sched.New(tp)
	s.KeepTrace = true
	m := &sim{tp: tp, s: s, env: env, prop: env.Property, ctx: context.Background(), counters: map[string]int{},
		hostileSeen: map[string]struct{}{}, opKinds: map[string]struct{}{}}
	if m.prop == "" {
		m.prop = "C14"
	}
	m.root = filepath.Join(env.Scratch, "run")
	if err := os.MkdirAll(filepath.Join(m.root, "outer"), 0o755); err != nil {
		panic(err)
	}
	// the working directory of the process: relative bucket roots are resolved against it
	if err := os.MkdirAll(filepath.Join(m.root, "outer", "B"), 0o755); err != nil {
		panic(err)
	}
	if wd, err := os.Getwd(); err == nil {
		defer func() { _ = osext.Chdir(wd) }()
	}
	if err := osext.Chdir(filepath.Join(m.root, "outer", "B")); err != nil {
		panic(err)
	}
	thread.SetParallelism(1 + tp.Draw("par", 4))
	m.buildViews()
	m.markAnchors()
	// sentinels next to and above every root
	_ = os.WriteFile(filepath.Join(m.root, "sentinel-top.txt"), []byte("top"), 0o644)
	_ = os.WriteFile(filepath.Join(m.root, "outer", "sentinel-outer.txt"), []byte("outer"), 0o644)
	for _, b := range m.bases {
		if b.dir != "" {
			_ = os.WriteFile(filepath.Join(b.guard, "sentinel-sibling.txt"), []byte("sibling of "+b.name), 0o644)
			_ = os.MkdirAll(filepath.Join(b.guard, "sib"), 0o755)
			_ = os.WriteFile(filepath.Join(b.guard, "sib", "n"), []byte("sibling dir of "+b.name), 0o644)
		}
	}
	// a tiny workspace for the command-line step (part of the surroundings that must not change)
	_ = os.MkdirAll(filepath.Join(m.root, "cliws", "a"), 0o755)
	_ = os.WriteFile(filepath.Join(m.root, "cliws", "buf.yaml"), []byte("version: v2\n"), 0o644)
	_ = os.WriteFile(filepath.Join(m.root, "cliws", "a", "a.proto"), []byte("syntax = \"proto3\";\npackage a;\nmessage A {}\n"), 0o644)
	_ = os.WriteFile(filepath.Join(m.root, "secret.proto"), []byte("syntax = \"proto3\";\npackage secret;\nmessage S {}\n"), 0o644)
	// and the same kind of workspace inside an archive, two directories deep: pkg/a and pkg/b are modules
	{
		var buf bytes.Buffer
		tw := tar.NewWriter(&buf)
		for _, f := range [][2]string{
			{"pkg/a/buf.yaml", "version: v2\n"}, {"pkg/a/a.proto", "syntax = \"proto3\";\npackage a;\nmessage A {}\n"},
			{"pkg/b/buf.yaml", "version: v2\n"}, {"pkg/b/b.proto", "syntax = \"proto3\";\npackage b;\nmessage B {}\n"},
		} {
			_ = tw.WriteHeader(&tar.Header{Typeflag: tar.TypeReg, Name: f[0], Size: int64(len(f[1])), Mode: 0o644})
			_, _ = tw.Write([]byte(f[1]))
		}
		_ = tw.Close()
		_ = os.WriteFile(filepath.Join(m.root, "cliws.tar"), buf.Bytes(), 0o644)
	}
	m.sentinel = m.outside()
	var labels []string
	for _, v := range m.views {
		labels = append(labels, v.label())
	}
	s.Event("views %q", labels)

	steps := 20 + tp.Draw("steps", 61)
	hostileBias := env.Property == "C13"
	for i := 0; i < steps; i++ {
		v := m.views[tp.Draw("view", len(m.views))]
		writable := v.wb() != nil
		op := tp.Draw("op", 20)
		if hostileBias && tp.Draw("c13bias", 2) == 1 {
			op = 12 + tp.Draw("c13op", 8)
		}
		name := ""
		switch {
		case op <= 2 && len(m.puts) > 0:
			h := m.puts[tp.Draw("puth", len(m.puts))]
			name = "write"
			m.stepWrite(h)
		case op <= 4 && len(m.puts) > 0:
			idx := tp.Draw("puth", len(m.puts))
			name = "close"
			m.stepClose(m.puts[idx], idx)
		case op <= 6 && len(m.gets) > 0:
			idx := tp.Draw("geth", len(m.gets))
			name = "read"
			m.stepRead(m.gets[idx], idx)
		case op <= 8:
			name = "get"
			m.stepGetOpen(v)
		case op == 9:
			name = "stat"
			m.stepStat(v)
		case op == 10 || op == 11:
			name = "walk"
			if tp.Draw("walkinterleaved", 3) == 2 && m.canWalkInterleaved(v) {
				name = "walk-interleaved"
				m.stepWalkInterleaved(v)
			} else {
				m.walkCheck(v, m.drawPrefix(), "walk")
			}
		case op <= 14 && writable:
			name = "put"
			if len(m.puts) < 3 {
				m.stepPutOpen(v)
			}
		case op == 15 && writable:
			name = "delete"
			m.stepDelete(v)
		case op == 16 && writable:
			name = "deleteall"
			m.stepDeleteAll(v)
		case op == 17 && writable:
			name = "copy"
			m.stepCopy(m.views[tp.Draw("copysrc", len(m.views))], v)
		case op == 18 && writable:
			if tp.Draw("harch", 2) == 0 {
				name = "hostile-archive"
				m.stepHostileArchive(v)
			} else {
				name = "plugin-response"
				m.stepPluginResponse(v)
			}
		case op == 19 && tp.Draw("special19", 4) == 3:
			switch tp.Draw("which19", 11) {
			case 0:
				name = "foreign-archive"
				m.stepForeignArchive()
			case 1:
				name = "filenode"
				m.stepFileNodes()
			case 2:
				name = "config-dirs"
				m.stepConfigDirs()
			case 3:
				name = "cached-module"
				m.stepCachedModule()
			case 4, 5:
				name = "union-revisit"
				m.stepUnionRevisit()
			case 6, 7:
				name = "filter-hidden"
				m.stepFilterHidden()
			case 8:
				name = "cli-path"
				m.stepCLIPath()
			case 9:
				name = "put-through-dir-link"
				m.stepPutThroughDirLink()
			default:
				name = "concurrent"
				m.stepConcurrent()
			}
		case op == 19:
			if tp.Draw("archopts", 3) == 2 {
				name = "archive-options"
				m.stepArchiveOptions(v)
			} else {
				name = "archive"
				m.stepArchive(v)
			}
		default:
			name = "get"
			m.stepGetOpen(v)
		}
		m.opKinds[name] = struct{}{}
		m.counters["steps"]++
		m.invariants(fmt.Sprintf("step %d (%s)", i, name))
		if len(s.Violations) > 8 {
			break
		}
	}
	// finish every in-flight operation, then compare every view with its model
	for len(m.puts) > 0 {
		m.stepClose(m.puts[0], 0)
	}
	for len(m.gets) > 0 {
		h := m.gets[0]
		rest, _ := io.ReadAll(h.roc)
		h.got = append(h.got, rest...)
		_ = h.roc.Close()
		if !h.undefine && string(h.got) != h.expect {
			m.violate("reader-sees-object-in-full", "read", "reader on %s got %d bytes, expected %d", h.v.label(), len(h.got), len(h.expect))
		}
		m.gets = m.gets[1:]
	}
	m.invariants("end")
	for _, v := range m.views {
		m.walkCheck(v, "", "final-walk")
		ct := v.contents()
		want, dup := ct.objs, ct.dup
		for _, k := range simfs.SortedKeys(want) {
			if dup[k] {
				continue
			}
			data, err := storage.ReadPath(m.ctx, v.rb(), k)
			if err != nil || string(data) != want[k] {
				m.violate("get-matches-model", "final-get", "final Get(%q) on %s: err=%v, %d bytes, model %d bytes", k, v.label(), err, len(data), len(want[k]))
			}
		}
	}
	out := &engine.Outcome{
		TraceHash: s.TraceHash(), SchedHash: s.TraceHash(), Steps: m.counters["steps"],
		Faults: s.Faults, Probes: s.Probes, Violations: s.Violations, Trace: s.TraceLines,
		Counters: m.counters, Nontrivial: len(m.opKinds) >= 4,
	}
	var hs []string
	for h := range m.hostileSeen {
		hs = append(hs, h)
	}
	var kinds []string
	for _, b := range m.bases {
		kinds = append(kinds, b.kind)
	}
	sort.Strings(kinds)
	out.Distinct = map[string][]string{"hostile-path": hs, "view-shape": {strings.Join(labels, ";")}}
	out.Sample = map[string]any{"views": labels, "steps": m.counters["steps"], "hostile_paths_tried": len(hs), "trace_head": head(s.TraceLines, 12)}
	return out
}

func head(xs []string, n int) []string {
	if len(xs) > n {
		return xs[:n]
	}
	return xs
}

var _ = errors.Is
