// Package simlock is the simulator's stand-in for buf's inter-process file
// locks (filelock.Locker over flock(2)): a per-path readers/writer table shared
// by all simulated processes, with waiting and timeouts on the simulated
// clock, and release of a dead process's locks.
package simlock

import (
	"context"
	"fmt"
	"sync"
	"time"

	"github.com/bufbuild/buf/private/pkg/filelock"
	"github.com/bufbuild/verif/sched"
)

type holder struct {
	proc      *sched.Proc
	exclusive bool
}

// Table is the lock state shared by every simulated process.
type Table struct {
	S  *sched.Sim
	mu sync.Mutex
	// held[path] = set of holders (each acquisition is its own open file description)
	held map[string]map[*holder]struct{}
	// Stats
	Acquired, Contended, Timeouts int
}

// NewTable returns an empty table.
func NewTable(s *sched.Sim) *Table {
	return &Table{S: s, held: map[string]map[*holder]struct{}{}}
}

func (t *Table) can(path string, exclusive bool) bool {
	t.mu.Lock()
	defer t.mu.Unlock()
	for h := range t.held[path] {
		if exclusive || h.exclusive {
			return false
		}
	}
	return true
}

func (t *Table) acquire(path string, h *holder) {
	t.mu.Lock()
	defer t.mu.Unlock()
	if t.held[path] == nil {
		t.held[path] = map[*holder]struct{}{}
	}
	t.held[path][h] = struct{}{}
	t.Acquired++
}

func (t *Table) release(path string, h *holder) bool {
	t.mu.Lock()
	defer t.mu.Unlock()
	if _, ok := t.held[path][h]; !ok {
		return false
	}
	delete(t.held[path], h)
	return true
}

// DropAll releases every lock of a dead process (what the kernel does).
func (t *Table) DropAll(proc *sched.Proc) {
	t.mu.Lock()
	defer t.mu.Unlock()
	for _, hs := range t.held {
		for h := range hs {
			if h.proc == proc {
				delete(hs, h)
			}
		}
	}
}

// HeldBy reports the number of locks a process currently holds.
func (t *Table) HeldBy(proc *sched.Proc) int {
	t.mu.Lock()
	defer t.mu.Unlock()
	n := 0
	for _, hs := range t.held {
		for h := range hs {
			if h.proc == proc {
				n++
			}
		}
	}
	return n
}

// HeldLive reports locks held by processes that are still alive, as "proc:path".
func (t *Table) HeldLive() []string {
	t.mu.Lock()
	defer t.mu.Unlock()
	var out []string
	for p, hs := range t.held {
		for h := range hs {
			if !h.proc.Dead {
				out = append(out, h.proc.Name+":"+p)
			}
		}
	}
	return out
}

// Locker is one process's view of the table.
type Locker struct {
	T       *Table
	Proc    *sched.Proc
	Timeout time.Duration
	// Prefix names the lock directory: lockers of different directories never conflict. "" is the
	// directory every process is expected to use.
	Prefix string
}

var _ filelock.Locker = (*Locker)(nil)

// NewLocker returns the locker of proc and arranges for its locks to be dropped when it dies.
func NewLocker(t *Table, proc *sched.Proc) *Locker {
	l := &Locker{T: t, Proc: proc, Timeout: filelock.DefaultLockTimeout}
	proc.OnKill = append(proc.OnKill, func() { t.DropAll(proc) })
	return l
}

func (l *Locker) lock(ctx context.Context, path string, exclusive bool) (filelock.Unlocker, error) {
	path = l.Prefix + path
	kind := "rlock"
	if exclusive {
		kind = "lock"
	}
	if !l.T.can(path, exclusive) {
		l.T.mu.Lock()
		l.T.Contended++
		l.T.mu.Unlock()
		l.T.S.Probe("lock-contended")
	}
	d := l.T.S.Yield(ctx, kind, path, sched.Guarded(func() bool { return l.T.can(path, exclusive) }, l.Timeout))
	if d.Dead {
		return nil, sched.ErrCrashed
	}
	if d.Timeout {
		l.T.S.Probe("lock-timeout")
		return nil, fmt.Errorf("could not lock %q: timed out (simulated)", path)
	}
	if d.Fault == "lock-err" {
		l.T.S.Fired("lock-err")
		return nil, d.Err(kind + " " + path)
	}
	h := &holder{proc: l.Proc, exclusive: exclusive}
	l.T.acquire(path, h)
	return &unlocker{l: l, path: path, h: h, ctx: ctx}, nil
}

// Lock implements filelock.Locker.
func (l *Locker) Lock(ctx context.Context, path string, _ ...filelock.LockOption) (filelock.Unlocker, error) {
	return l.lock(ctx, path, true)
}

// RLock implements filelock.Locker.
func (l *Locker) RLock(ctx context.Context, path string, _ ...filelock.LockOption) (filelock.Unlocker, error) {
	return l.lock(ctx, path, false)
}

type unlocker struct {
	l    *Locker
	path string
	h    *holder
	ctx  context.Context
}

func (u *unlocker) Unlock() error {
	d := u.l.T.S.Yield(u.ctx, "unlock", u.path, sched.NoFault())
	if d.Dead {
		return sched.ErrCrashed
	}
	if !u.l.T.release(u.path, u.h) {
		return fmt.Errorf("unlock of %q: not held", u.path)
	}
	return nil
}
