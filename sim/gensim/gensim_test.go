package gensim

import (
	"testing"

	"github.com/bufbuild/verif/engine"
)

func TestSim(t *testing.T) {
	engine.Main(t, "gensim", Run)
}
