// Package gensim decides the multi-party / concurrent clauses of C17: plugin
// invocations (one per plugin, per directory under strategy "directory") run as
// concurrent jobs; buf must hand each file to generate to a plugin exactly once,
// apply results in configuration order whatever the completion order, keep every
// plugin-chosen name beneath the plugin's output directory, and flush nothing
// unless every plugin succeeded.
package gensim

import (
	"bytes"
	"context"
	"fmt"
	"os"
	"path"
	"path/filepath"
	"sort"
	"strings"
	"sync"

	"github.com/bufbuild/buf/private/buf/bufgen"
	"github.com/bufbuild/buf/private/buf/bufprotopluginexec"
	bufcli "github.com/bufbuild/buf/private/buf/cmd/buf"
	"github.com/bufbuild/buf/private/bufpkg/bufconfig"
	"github.com/bufbuild/buf/private/bufpkg/bufimage"
	"github.com/bufbuild/buf/private/bufpkg/bufmodule"
	"github.com/bufbuild/buf/private/bufpkg/bufparse"
	"github.com/bufbuild/buf/private/gen/data/datawkt"
	"github.com/bufbuild/buf/private/pkg/app"
	"github.com/bufbuild/buf/private/pkg/app/appcmd"
	"github.com/bufbuild/buf/private/pkg/osext"
	"github.com/bufbuild/buf/private/pkg/slogext"
	"github.com/bufbuild/buf/private/pkg/storage"
	"github.com/bufbuild/buf/private/pkg/storage/storagemem"
	"github.com/bufbuild/buf/private/pkg/storage/storageos"
	"github.com/bufbuild/buf/private/pkg/thread"
	"github.com/bufbuild/buf/private/pkg/verifhook"
	"github.com/bufbuild/protoplugin"
	"github.com/bufbuild/verif/engine"
	"github.com/bufbuild/verif/sched"
	"github.com/bufbuild/verif/simfs"
	"github.com/bufbuild/verif/tape"
	"github.com/bufbuild/verif/wsgen"
	"google.golang.org/protobuf/encoding/protowire"
	"google.golang.org/protobuf/proto"
	"google.golang.org/protobuf/reflect/protoreflect"
	"google.golang.org/protobuf/types/descriptorpb"
	"google.golang.org/protobuf/types/pluginpb"
)

type pluginSpec struct {
	index          int
	name           string
	out            string
	strategy       string
	includeImports bool
	includeWKT     bool
	behaviour      string // normal | insert | insert-missing | duplicate | duplicate-spelling | duplicate-nested | hostile | error
	hostileName    string
	extraFile      string   // an additional file this plugin produces (single-request plugins only)
	tag            string   // names this plugin's files: plugins with different outs may share one
	insertInto     int      // behaviour insert: index of the earlier plugin (same out) whose file receives the insertions
	points         []string // behaviour insert: the insertion points used, in order
	// emptyInsertionPoint: behaviour duplicate: the duplicate file carries insertion_point: ""
	emptyInsertionPoint bool
	// typeFilter: this plugin's `types:` list (v2 templates): it sees the image filtered to these
	// types - a subset of its files, which the other plugins must not lose
	typeFilter []string
}

type request struct {
	toGenerate []string
	protoFiles []string
	deps       map[string][]string
	sourceDesc []string
	// custom message option numbers seen per file, in the runtime view (proto_file) and in
	// source_file_descriptors
	runtimeOpts map[string]map[int32]bool
	sourceOpts  map[string]map[int32]bool
}

// messageOptionNumbers returns the field numbers present as unknown fields (custom options
// are extensions nobody registered here) in the options of the file's top-level messages.
func messageOptionNumbers(fd *descriptorpb.FileDescriptorProto) map[int32]bool {
	out := map[int32]bool{}
	for _, msg := range fd.GetMessageType() {
		if msg.GetOptions() == nil {
			continue
		}
		b := msg.GetOptions().ProtoReflect().GetUnknown()
		for len(b) > 0 {
			num, typ, n := protowire.ConsumeTag(b)
			if n < 0 {
				break
			}
			b = b[n:]
			n = protowire.ConsumeFieldValue(num, typ, b)
			if n < 0 {
				break
			}
			b = b[n:]
			out[int32(num)] = true
		}
		msg.GetOptions().ProtoReflect().Range(func(fdesc protoreflect.FieldDescriptor, _ protoreflect.Value) bool {
			if fdesc.IsExtension() {
				out[int32(fdesc.Number())] = true
			}
			return true
		})
	}
	return out
}

type gsim struct {
	tp      *tape.Tape
	s       *sched.Sim
	env     *engine.Env
	ws      *wsgen.Workspace
	plugins []*pluginSpec
	mu      sync.Mutex
	reqs    map[int][]*request // per plugin index
	// responses in the order the plugin produced them, keyed by plugin index then first file to generate
	produced   map[int]map[string][]genFile
	base       string
	completion []int
	clean      bool
	cwdMode    bool
	// viaCLI: the generation runs through the real `buf generate` command on the workspace written
	// to disk (template file, -o, --path / --exclude-path, --include-imports / --include-wkt)
	viaCLI bool
	// viaImage: with viaCLI, the workspace is first built into this image file, which is then the input of generate
	viaImage string
	// overrides given on the command line (nil: none)
	importsOverride *bool
	wktOverride     *bool
	hostileRun      bool
	image           bufimage.Image
}

type genFile struct {
	name, content, insertion string
}

func (m *gsim) violate(oracle, site, format string, args ...any) {
	msg := strings.ReplaceAll(fmt.Sprintf(format, args...), m.env.Scratch, "<scratch>")
	prop := "C17"
	if m.env.Property == "C13" {
		// run on behalf of C13 (plugin-generated names cannot reach outside their directory):
		// only the containment oracles count
		if oracle != "output-contained" && !(oracle == "generate-fails-cleanly" && m.hostileRun) {
			return
		}
		prop = "C13"
	}
	m.s.Violate(oracle, prop+"|gen|"+oracle+"|"+site, "%s", msg)
}

func wktContent(path string) string {
	data, err := storage.ReadPath(context.Background(), datawkt.ReadBucket, path)
	if err != nil {
		panic(err)
	}
	return string(data)
}

// handler is the simulated plugin.
type handler struct {
	m    *gsim
	spec *pluginSpec
}

func outName(spec *pluginSpec, protoPath string) string {
	return strings.TrimSuffix(protoPath, ".proto") + "." + spec.tag + ".txt"
}

func (h *handler) Handle(ctx context.Context, _ protoplugin.PluginEnv, w protoplugin.ResponseWriter, r protoplugin.Request) error {
	m, spec := h.m, h.spec
	cgr := r.CodeGeneratorRequest()
	first := ""
	if len(cgr.GetFileToGenerate()) > 0 {
		first = cgr.GetFileToGenerate()[0]
	}
	d := m.s.Yield(ctx, "plugin.start", spec.name+":"+first, sched.NoFault(), sched.WithoutJob())
	if d.Dead {
		return sched.ErrCrashed
	}
	req := &request{deps: map[string][]string{}, runtimeOpts: map[string]map[int32]bool{}, sourceOpts: map[string]map[int32]bool{}}
	req.toGenerate = append(req.toGenerate, cgr.GetFileToGenerate()...)
	for _, fd := range cgr.GetProtoFile() {
		req.protoFiles = append(req.protoFiles, fd.GetName())
		req.deps[fd.GetName()] = fd.GetDependency()
		req.runtimeOpts[fd.GetName()] = messageOptionNumbers(fd)
	}
	for _, fd := range cgr.GetSourceFileDescriptors() {
		req.sourceDesc = append(req.sourceDesc, fd.GetName())
		req.sourceOpts[fd.GetName()] = messageOptionNumbers(fd)
	}
	m.mu.Lock()
	m.reqs[spec.index] = append(m.reqs[spec.index], req)
	m.mu.Unlock()

	w.SetFeatureProto3Optional()
	w.SetFeatureSupportsEditions(descriptorpb.Edition_EDITION_PROTO2, descriptorpb.Edition_EDITION_2024)
	var files []genFile
	add := func(name, content, insertion string) {
		files = append(files, genFile{name, content, insertion})
		if insertion == "" {
			w.AddFile(name, content)
			return
		}
		w.AddCodeGeneratorResponseFiles(&pluginpb.CodeGeneratorResponse_File{
			Name: proto.String(name), Content: proto.String(content), InsertionPoint: proto.String(insertion),
		})
	}
	for _, p := range cgr.GetFileToGenerate() {
		add(outName(spec, p), fmt.Sprintf("generated by %s from %s\n// @@protoc_insertion_point(slot)\nbody {\n    // @@protoc_insertion_point(inner)\n}\nend\n", spec.name, p), "")
	}
	if spec.extraFile != "" && first != "" {
		add(spec.extraFile, "extra file of "+spec.name+"\n", "")
	}
	var herr error
	switch spec.behaviour {
	case "insert":
		// insert into what an earlier plugin (same out) generated for our first file
		if spec.index > 0 && first != "" {
			target := m.plugins[spec.insertInto]
			for k, point := range spec.points {
				content := fmt.Sprintf("inserted by %s #%d", spec.name, k)
				if k%2 == 1 {
					content += "\nsecond line of #" + fmt.Sprint(k) + "\n"
				}
				add(outName(target, first), content, point)
			}
		}
	case "insert-missing":
		if first != "" {
			add("never/produced.txt", "inserted by "+spec.name, "slot")
		}
	case "duplicate", "duplicate-spelling":
		if spec.index > 0 && first != "" {
			prev := m.plugins[spec.index-1]
			if spec.emptyInsertionPoint {
				// insertion_point present but empty (some runtimes always put the field on the wire):
				// still an ordinary file, and still a duplicate
				files = append(files, genFile{outName(prev, first), "duplicate from " + spec.name, ""})
				w.AddCodeGeneratorResponseFiles(&pluginpb.CodeGeneratorResponse_File{
					Name: proto.String(outName(prev, first)), Content: proto.String("duplicate from " + spec.name), InsertionPoint: proto.String(""),
				})
			} else {
				add(outName(prev, first), "duplicate from "+spec.name, "")
			}
		}
	case "hostile":
		if first != "" {
			add(spec.hostileName, "escaped by "+spec.name, "")
		}
	case "error":
		if first != "" {
			herr = fmt.Errorf("simulated plugin %s failed on %s", spec.name, first)
		}
	}
	m.mu.Lock()
	if m.produced[spec.index] == nil {
		m.produced[spec.index] = map[string][]genFile{}
	}
	m.produced[spec.index][first] = files
	m.mu.Unlock()
	d = m.s.Yield(ctx, "plugin.end", spec.name+":"+first, sched.NoFault(), sched.WithoutJob())
	if d.Dead {
		return sched.ErrCrashed
	}
	m.mu.Lock()
	m.completion = append(m.completion, spec.index)
	m.mu.Unlock()
	return herr
}

type simProvider struct{ m *gsim }

func (p *simProvider) NewReadWriteBucket(rootPath string, options ...storageos.ReadWriteBucketOption) (storage.ReadWriteBucket, error) {
	raw, err := storageos.NewProvider().NewReadWriteBucket(rootPath, options...)
	if err != nil {
		return nil, err
	}
	rel := rootPath
	if filepath.IsAbs(rootPath) {
		rel, _ = filepath.Rel(p.m.base, rootPath)
	}
	label := strings.ReplaceAll(filepath.ToSlash(rel), strings.TrimPrefix(filepath.ToSlash(p.m.env.Scratch), "/"), "<scratch>")
	return &simfs.Bucket{S: p.m.s, U: raw, Name: "out[" + label + "]"}, nil
}

func (m *gsim) buildImage() (bufimage.Image, error) {
	ctx := context.Background()
	builder := bufmodule.NewModuleSetBuilder(ctx, slogext.NopLogger, bufmodule.NopModuleDataProvider, bufmodule.NopCommitProvider)
	for i, mod := range m.ws.Modules {
		mem := storagemem.NewReadWriteBucket()
		for p, c := range mod.ModuleFiles() {
			if err := storage.PutPath(ctx, mem, p, c); err != nil {
				return nil, err
			}
		}
		var opts []bufmodule.LocalModuleOption
		if mod.Name != "" {
			fn, err := bufparse.ParseFullName(mod.Name)
			if err != nil {
				return nil, err
			}
			opts = append(opts, bufmodule.LocalModuleWithFullNameAndCommitID(fn, mod.CommitID))
		}
		if mod.ProtoFileTarget != "" {
			opts = append(opts, bufmodule.LocalModuleWithProtoFileTargetPath(mod.ProtoFileTarget, mod.IncludePackageFiles))
		} else if len(mod.TargetPaths) > 0 || len(mod.ExcludePaths) > 0 {
			opts = append(opts, bufmodule.LocalModuleWithTargetPaths(mod.TargetPaths, mod.ExcludePaths))
		}
		builder.AddLocalModule(mem, fmt.Sprintf("bucket-%d", i), mod.Targeted, opts...)
	}
	moduleSet, err := builder.Build()
	if err != nil {
		return nil, err
	}
	return bufimage.BuildImage(ctx, slogext.NopLogger, bufmodule.ModuleSetToModuleReadBucketWithOnlyProtoFiles(moduleSet))
}

var hostileNames = []string{"../escape.txt", "a/../../escape.txt", "/abs/escape.txt", "..", "x/../../../escape.txt"}

func (m *gsim) drawPlugins() string {
	n := 1 + m.tp.Draw("g.nplugins", 4)
	outs := []string{"gen/a", "gen/b", "gen/a/nested"}
	var y strings.Builder
	v2 := m.tp.Draw("g.v2", 4) != 0
	m.clean = v2 && m.tp.Draw("g.clean", 4) == 3
	if v2 {
		y.WriteString("version: v2\n")
		if m.clean {
			// delete the output directories before generating
			y.WriteString("clean: true\n")
		}
		y.WriteString("plugins:\n")
	} else {
		y.WriteString("version: v1\nplugins:\n")
	}
	special := -1
	if m.tp.Draw("g.special?", 2) == 1 && n > 0 {
		special = m.tp.Draw("g.special", n)
	}
	for i := 0; i < n; i++ {
		p := &pluginSpec{index: i, name: fmt.Sprintf("sim%d", i), behaviour: "normal", insertInto: -1}
		p.tag = p.name
		p.out = tape.Pick(m.tp, "g.out", outs)
		if v2 && m.tp.Draw("g.absout", 6) == 5 {
			// an absolute out: with a base out directory it still has to land (and be cleaned) below the base
			p.out = filepath.Join(m.env.Scratch, "work", "absout")
		}
		p.strategy = tape.Pick(m.tp, "g.strategy", []string{"directory", "all"})
		p.includeImports = m.tp.Draw("g.imports", 2) == 1
		// include_wkt is only accepted together with include_imports
		p.includeWKT = p.includeImports && m.tp.Draw("g.wkt", 2) == 1
		if i > 0 && m.tp.Draw("g.sharetag", 4) == 3 {
			// the same relative file names as an earlier plugin that writes somewhere else
			if q := m.plugins[m.tp.Draw("g.tagof", i)]; m.outRel(q.out) != m.outRel(p.out) {
				p.tag = q.tag
			}
		}
		if i == special {
			p.behaviour = tape.Pick(m.tp, "g.behaviour", []string{"insert", "insert-missing", "duplicate", "hostile", "error", "duplicate-spelling", "duplicate-nested"})
			if p.behaviour == "duplicate-spelling" || p.behaviour == "duplicate-nested" {
				// (not combined with an absolute out: "/x" and "./x" only coincide through the base out directory)
				if i == 0 || !v2 || filepath.IsAbs(m.plugins[i-1].out) {
					p.behaviour = "normal"
				} else {
					prev := m.plugins[i-1]
					p.includeImports, p.includeWKT = prev.includeImports, prev.includeWKT
					if p.behaviour == "duplicate-spelling" {
						// the same directory, spelled differently
						spellings := []string{"./" + prev.out, prev.out + "/", prev.out + "/."}
						if !m.cwdMode {
							// with a base out directory every out is joined below it: "/gen/a" and "gen/a" are one directory
							spellings = append(spellings, "/"+prev.out, "/"+prev.out)
						}
						p.out = tape.Pick(m.tp, "g.spelling", spellings)
						p.strategy = prev.strategy
					} else {
						// prev produces <out>/dupdir/shared.txt, this plugin <out>/dupdir + shared.txt: one path
						prev.strategy, p.strategy = "all", "all"
						prev.extraFile = "dupdir/shared.txt"
						p.out = prev.out + "/dupdir"
						p.extraFile = "shared.txt"
					}
				}
			}
			if p.behaviour == "insert" || p.behaviour == "duplicate" {
				if i == 0 {
					p.behaviour = "normal"
				} else {
					// must share the output location with the earlier plugin it refers to
					prev := m.plugins[i-1]
					if p.behaviour == "insert" {
						prev = m.plugins[m.tp.Draw("g.insertinto", i)]
						p.insertInto = prev.index
						p.points = drawPoints(m.tp)
					}
					p.out = prev.out
					if m.cwdMode && !filepath.IsAbs(prev.out) && m.tp.Draw("g.absspelling", 2) == 1 {
						// the same directory, given as an absolute path
						p.out = filepath.Join(m.base, prev.out)
					}
					p.tag = p.name
					// and receive the same files: same strategy and import settings
					p.strategy, p.includeImports, p.includeWKT = prev.strategy, prev.includeImports, prev.includeWKT
				}
			}
			if p.behaviour == "duplicate" || p.behaviour == "duplicate-spelling" {
				p.emptyInsertionPoint = m.tp.Draw("g.emptyip", 2) == 1
			}
			if p.behaviour == "hostile" {
				p.hostileName = tape.Pick(m.tp, "g.hostile", hostileNames)
			}
		}
		m.plugins = append(m.plugins, p)
	}
	if n == 4 && m.tp.Draw("g.crossout", 3) == 2 {
		// two receivers with the same relative file names in two output directories, each with its
		// own inserting plugin, in a tape-chosen order that keeps every receiver before its inserter
		order := tape.Pick(m.tp, "g.crossorder", [][4]string{
			{"Ra", "Rb", "Wa", "Wb"}, {"Ra", "Rb", "Wb", "Wa"}, {"Ra", "Wa", "Rb", "Wb"}, {"Rb", "Ra", "Wa", "Wb"}, {"Rb", "Wb", "Ra", "Wa"}, {"Ra", "Rb", "Wa", "Wa2"},
		})
		strategy := tape.Pick(m.tp, "g.strategy", []string{"directory", "all"})
		at := map[string]int{}
		for i, role := range order {
			p := m.plugins[i]
			*p = pluginSpec{index: i, name: p.name, behaviour: "normal", insertInto: -1, strategy: strategy, tag: "shared"}
			p.out = "gen/a"
			if strings.HasSuffix(role, "b") {
				p.out = "gen/b"
			}
			if role[0] == 'W' {
				p.behaviour, p.tag = "insert", p.name
				p.insertInto = at["R"+role[1:2]]
				p.points = drawPoints(m.tp)
			}
			at[role] = i
		}
	}
	if v2 && special == -1 && m.plugins[0].tag != "shared" && m.tp.Draw("g.typefilter", 3) == 2 {
		// one plugin is restricted to one message type of a targeted file
		var names []string
		for _, f := range m.image.Files() {
			if fd := f.FileDescriptorProto(); !f.IsImport() && len(fd.GetMessageType()) > 0 {
				name := fd.GetMessageType()[0].GetName()
				if fd.GetPackage() != "" {
					name = fd.GetPackage() + "." + name
				}
				names = append(names, name)
			}
		}
		if len(names) > 0 {
			m.plugins[m.tp.Draw("g.filtered", n)].typeFilter = []string{tape.Pick(m.tp, "g.type", names)}
		}
	}
	for _, p := range m.plugins {
		if v2 {
			fmt.Fprintf(&y, "  - local: protoc-gen-%s\n    out: %s\n    strategy: %s\n", p.name, p.out, p.strategy)
			if len(p.typeFilter) > 0 {
				fmt.Fprintf(&y, "    types:\n      - %s\n", p.typeFilter[0])
			}
			if p.includeImports {
				y.WriteString("    include_imports: true\n")
			}
			if p.includeWKT {
				y.WriteString("    include_wkt: true\n")
			}
		} else {
			fmt.Fprintf(&y, "  - plugin: %s\n    out: %s\n    strategy: %s\n", p.name, p.out, p.strategy)
			// v1 has no per-plugin import switches
			p.includeImports, p.includeWKT = false, false
		}
	}
	return y.String()
}

// drawPoints picks the insertion points one inserting plugin uses (a point may be used twice).
func drawPoints(tp *tape.Tape) []string {
	n := 1 + tp.Draw("g.npoints", 3)
	var out []string
	for i := 0; i < n; i++ {
		out = append(out, tape.Pick(tp, "g.point", []string{"slot", "inner"}))
	}
	return out
}

// outRel is where a plugin's out ends up, relative to the project directory. With a base out
// directory buf joins the base and the configured out, so an absolute out lands at
// <base>/<abs path>; when the project directory is the working directory and the base is ".",
// an absolute out is that directory itself (possibly the same directory as a relative out).
func (m *gsim) outRel(out string) string {
	if m.cwdMode && filepath.IsAbs(out) {
		rel, err := filepath.Rel(m.base, out)
		if err != nil {
			panic(err)
		}
		return filepath.ToSlash(rel)
	}
	return strings.TrimPrefix(filepath.ToSlash(filepath.Clean(filepath.Join("/", out))), "/")
}

// outKey is outRel as a key of the recorded directory states (relative to the work directory).
func (m *gsim) outKey(out string) string {
	return path.Clean("proj/" + m.outRel(out))
}

func pluginNameOf(configName string) string {
	return strings.TrimPrefix(configName, "protoc-gen-")
}

// expectedToGenerate is the set of files a plugin must be asked to generate.
func (m *gsim) expectedToGenerate(p *pluginSpec, image bufimage.Image) map[string]bool {
	out := map[string]bool{}
	// command-line overrides (--include-imports / --include-wkt, also =false) win over the template
	includeImports, includeWKT := p.includeImports, p.includeWKT
	if m.importsOverride != nil {
		includeImports = *m.importsOverride
	}
	if m.wktOverride != nil {
		includeWKT = *m.wktOverride
	}
	for _, f := range image.Files() {
		switch {
		case !f.IsImport():
			out[f.Path()] = true
		case !includeImports:
		case datawkt.Exists(f.Path()):
			if includeWKT {
				out[f.Path()] = true
			}
		default:
			out[f.Path()] = true
		}
	}
	return out
}

// referenceTree applies the produced responses sequentially in configuration order.
func (m *gsim) referenceTree() (map[string]string, error) {
	tree := map[string]string{}
	producedIn := map[string]map[string]bool{} // out -> names produced in this run
	for _, p := range m.plugins {
		// outputs are tracked by resulting path: "gen/a", "./gen/a/" and a nested out are one tree
		if producedIn["<all>"] == nil {
			producedIn["<all>"] = map[string]bool{}
		}
		firsts := simfs.SortedKeys(m.produced[p.index])
		seenInPlugin := map[string]bool{}
		for _, first := range firsts {
			for _, f := range m.produced[p.index][first] {
				full := path.Clean(m.outRel(p.out) + "/" + filepath.ToSlash(f.name))
				if f.insertion != "" {
					if !producedIn["<all>"][full] {
						return nil, fmt.Errorf("insertion point into %s which was not produced", full)
					}
					tree[full] = applyInsertion(tree[full], f.insertion, f.content)
					continue
				}
				if seenInPlugin[f.name] {
					continue
				}
				seenInPlugin[f.name] = true
				if producedIn["<all>"][full] {
					return nil, fmt.Errorf("duplicate %s", full)
				}
				producedIn["<all>"][full] = true
				tree[full] = f.content
			}
		}
	}
	return tree, nil
}

func applyInsertion(target, point, content string) string {
	lines := strings.Split(target, "\n")
	var out []string
	marker := "@@protoc_insertion_point(" + point + ")"
	for _, l := range lines {
		if strings.Contains(l, marker) {
			ws := l[:len(l)-len(strings.TrimLeft(l, " \t"))]
			for _, cl := range strings.Split(strings.TrimSuffix(content, "\n"), "\n") {
				out = append(out, ws+cl)
			}
		}
		out = append(out, l)
	}
	// whether the file keeps its final newline after an insertion is not part of the property
	return strings.TrimRight(strings.Join(out, "\n"), "\n")
}

// generateViaCLI runs the real `buf generate` command in-process: it reads the workspace from disk,
// builds the image itself, reads the template from a file and takes the overrides as flags.
func (m *gsim) generateViaCLI(ctx context.Context, template, baseOut string) error {
	root := filepath.Join(m.env.Scratch, "cli", "ws")
	dirs := m.ws.WriteV2Dir(root, func(path string, data []byte) {
		if err := os.MkdirAll(filepath.Dir(path), 0o755); err != nil {
			panic(err)
		}
		if err := os.WriteFile(path, data, 0o644); err != nil {
			panic(err)
		}
	})
	templatePath := filepath.Join(m.env.Scratch, "cli", "buf.gen.yaml")
	if err := os.WriteFile(templatePath, []byte(template), 0o644); err != nil {
		panic(err)
	}
	env := map[string]string{"HOME": filepath.Join(m.env.Scratch, "cli", "home"), "BUF_CACHE_DIR": filepath.Join(m.env.Scratch, "cli", "cache"), "PATH": ""}
	input := root
	pathFlags := m.ws.PathFlags(root, dirs)
	if m.viaImage != "" {
		// first `buf build -o <image file>`, then generate from the image: other code reads the input
		input = filepath.Join(m.env.Scratch, "cli", m.viaImage)
		buildArgs := []string{"buf", "build", root, "-o", input}
		for _, f := range pathFlags {
			buildArgs = append(buildArgs, f[0], f[1])
		}
		pathFlags = nil
		var bo, be bytes.Buffer
		if err := appcmd.Run(ctx, app.NewContainer(env, strings.NewReader(""), &bo, &be, buildArgs...), bufcli.NewRootCommand("buf")); err != nil {
			return fmt.Errorf("buf build -o %s: %w (stderr: %s)", m.viaImage, err, strings.ReplaceAll(be.String(), m.env.Scratch, "<scratch>"))
		}
		m.s.Probe("generated-from-an-image-file")
	}
	args := []string{"buf", "generate", input, "--template", templatePath}
	if !m.cwdMode {
		args = append(args, "-o", baseOut)
	}
	for _, f := range pathFlags {
		args = append(args, f[0], f[1])
	}
	if m.importsOverride != nil {
		args = append(args, fmt.Sprintf("--include-imports=%v", *m.importsOverride))
	}
	if m.wktOverride != nil {
		args = append(args, fmt.Sprintf("--include-wkt=%v", *m.wktOverride))
	}
	var stdout, stderr bytes.Buffer
	container := app.NewContainer(env, strings.NewReader(""), &stdout, &stderr, args...)
	if err := appcmd.Run(ctx, container, bufcli.NewRootCommand("buf")); err != nil {
		return fmt.Errorf("%w (stderr: %s)", err, strings.ReplaceAll(stderr.String(), m.env.Scratch, "<scratch>"))
	}
	m.s.Probe("generated-through-the-command-line")
	return nil
}

// Run is one simulated generation.
func Run(tp *tape.Tape, env *engine.Env) *engine.Outcome {
	s := sched.New(tp)
	s.KeepTrace = env.KeepTrace
	s.Progress = env.Progress
	s.MaxSteps = 20000
	hooks := simfs.NewHooks(s)
	verifhook.SetHandler(hooks)
	defer verifhook.SetHandler(nil)
	m := &gsim{tp: tp, s: s, env: env, reqs: map[int][]*request{}, produced: map[int]map[string][]genFile{}}
	m.ws = wsgen.New(tp, wsgen.Options{MaxModules: 2, MaxFiles: 8, Targeting: true, SupplyWKT: wktContent, CustomOptions: true})
	image, err := m.buildImage()
	if err != nil {
		s.Violate("harness-image", "harness|image", "cannot build the image: %v", err)
		s.Drain()
		return engine.FromSim(s)
	}
	m.image = image
	m.base = filepath.Join(env.Scratch, "work", "proj")
	// sometimes the project directory is the working directory and the base out directory is ".":
	// a relative and an absolute out can then be the same directory
	m.cwdMode = tp.Draw("g.cwd", 3) == 2
	m.viaCLI = m.ws.CLIUsable() && tp.Draw("g.cli", 4) == 3
	if m.viaCLI {
		m.viaImage = tape.Pick(tp, "g.viaimage", []string{"", "image.binpb", "", "image.binpb.gz", "image.json", "image.txtpb"})
	}
	for _, target := range []**bool{&m.importsOverride, &m.wktOverride} {
		switch tp.Draw("g.override", 4) {
		case 2:
			v := true
			*target = &v
		case 3:
			v := false
			*target = &v
		}
	}
	if m.viaCLI && m.wktOverride != nil && *m.wktOverride && (m.importsOverride == nil || !*m.importsOverride) {
		// the command refuses --include-wkt without --include-imports
		v := true
		m.importsOverride = &v
	}
	yaml := m.drawPlugins()
	genFile, err := bufconfig.ReadBufGenYAMLFile(strings.NewReader(yaml))
	if err != nil {
		s.Violate("harness-config", "harness|config", "cannot read buf.gen.yaml: %v\n%s", err, yaml)
		s.Drain()
		return engine.FromSim(s)
	}
	bufprotopluginexec.SetVerifHandlerFunc(func(name string) protoplugin.Handler {
		for _, p := range m.plugins {
			if p.name == pluginNameOf(name) {
				return &handler{m: m, spec: p}
			}
		}
		return nil
	})
	defer bufprotopluginexec.SetVerifHandlerFunc(nil)
	if err := os.MkdirAll(m.base, 0o755); err != nil {
		panic(err)
	}
	// pre-existing content and sentinels outside every out directory
	_ = os.WriteFile(filepath.Join(env.Scratch, "work", "sentinel.txt"), []byte("outside the project"), 0o644)
	_ = os.WriteFile(filepath.Join(m.base, "keep.txt"), []byte("beside the out directories"), 0o644)
	_ = os.MkdirAll(filepath.Join(m.base, "gen", "a"), 0o755)
	_ = os.WriteFile(filepath.Join(m.base, "gen", "a", "existing.txt"), []byte("from an earlier run"), 0o644)
	_ = os.MkdirAll(filepath.Join(env.Scratch, "work", "absout", "sub"), 0o755)
	_ = os.WriteFile(filepath.Join(env.Scratch, "work", "absout", "sentinel-abs.txt"), []byte("at the absolute out path itself"), 0o644)
	_ = os.WriteFile(filepath.Join(env.Scratch, "work", "absout", "sub", "deep.txt"), []byte("below the absolute out path"), 0o644)
	before, _ := simfs.DirState(filepath.Join(env.Scratch, "work"))

	// every job can be parked at once; with fewer workers than jobs the dispatch order would come
	// from a Go map iteration inside bufgen.execPlugins, which the simulator cannot seed
	par := tape.Pick(tp, "g.par", []int{16, 32})
	thread.SetParallelism(par)
	// job indices of the plugin jobs come from a Go map iteration inside bufgen: not usable as task keys
	s.YieldJobs = false
	var specs []string
	for _, p := range m.plugins {
		specs = append(specs, fmt.Sprintf("%s(out=%s %s imports=%v wkt=%v %s types=%v)", p.name, strings.ReplaceAll(p.out, env.Scratch, "<scratch>"), p.strategy, p.includeImports, p.includeWKT, p.behaviour, p.typeFilter))
	}
	s.Event("case files=%d targets=%d plugins=%v par=%d", len(image.Files()), len(m.ws.Targets()), specs, par)

	if m.cwdMode {
		if wd, err := os.Getwd(); err == nil {
			defer func() { _ = osext.Chdir(wd) }()
		}
		if err := osext.Chdir(m.base); err != nil {
			panic(err)
		}
		s.Probe("project-directory-is-working-directory")
	}
	var genErr error
	proc := s.Proc("gen")
	s.Spawn(proc, func(ctx context.Context) {
		generator := bufgen.NewGenerator(slogext.NopLogger, &simProvider{m: m}, nil)
		container := app.NewContainer(map[string]string{}, strings.NewReader(""), &bytes.Buffer{}, &bytes.Buffer{})
		baseOut := m.base
		if m.cwdMode {
			baseOut = "."
		}
		if m.viaCLI {
			genErr = m.generateViaCLI(ctx, yaml, baseOut)
			return
		}
		opts := []bufgen.GenerateOption{bufgen.GenerateWithBaseOutDirPath(baseOut)}
		if m.importsOverride != nil {
			opts = append(opts, bufgen.GenerateWithIncludeImportsOverride(*m.importsOverride))
		}
		if m.wktOverride != nil {
			opts = append(opts, bufgen.GenerateWithIncludeWellKnownTypesOverride(*m.wktOverride))
		}
		genErr = generator.Generate(ctx, container, genFile.GenerateConfig(), []bufimage.Image{image}, opts...)
	})
	s.Run()
	if s.Deadlocked {
		s.Violate("harness-deadlock", "harness|deadlock", "deadlock: %v", s.ParkedKeys())
	}
	s.Event("generate err=%v completion=%v", genErr != nil, m.completion)
	after, _ := simfs.DirState(filepath.Join(env.Scratch, "work"))

	// (1) exactly-once over the recorded request history, (2) closed and ordered requests
	for _, p := range m.plugins {
		want := m.expectedToGenerate(p, image)
		got := map[string]int{}
		for _, r := range m.reqs[p.index] {
			pos := map[string]int{}
			for i, n := range r.protoFiles {
				pos[n] = i
			}
			for _, f := range r.toGenerate {
				got[f]++
				if _, ok := pos[f]; !ok {
					m.violate("request-closed-and-ordered", "request", "plugin %s: file to generate %s is not among the request's proto files", p.name, f)
				}
			}
			for _, n := range r.protoFiles {
				for _, d := range r.deps[n] {
					if dp, ok := pos[d]; !ok {
						m.violate("request-closed-and-ordered", "request", "plugin %s: request lacks %s, a dependency of %s", p.name, d, n)
					} else if dp > pos[n] {
						m.violate("request-closed-and-ordered", "request", "plugin %s: %s comes before its dependency %s", p.name, n, d)
					}
				}
			}
			// source-retention options: gone from the runtime view of the files to generate, kept in
			// source_file_descriptors; runtime-retention options are kept in both
			for _, f := range r.toGenerate {
				wf := m.ws.Files[f]
				if wf == nil || !wf.HasCustomOptions || len(p.typeFilter) > 0 {
					continue
				}
				rt, src := r.runtimeOpts[f], r.sourceOpts[f]
				if rt[wsgen.SourceOptionNumber] {
					m.violate("request-closed-and-ordered", "source-retention", "plugin %s: the runtime view of %s still carries its source-retention option", p.name, f)
				}
				if !rt[wsgen.RuntimeOptionNumber] {
					m.violate("request-closed-and-ordered", "source-retention", "plugin %s: the runtime view of %s lost its runtime-retention option", p.name, f)
				}
				if src != nil && (!src[wsgen.SourceOptionNumber] || !src[wsgen.RuntimeOptionNumber]) {
					m.violate("request-closed-and-ordered", "source-retention", "plugin %s: the source descriptor of %s lacks a custom option (have %v)", p.name, f, src)
				}
				m.s.Probe("source-retention-checked")
			}
			if strings.Join(r.sourceDesc, ",") != strings.Join(r.toGenerate, ",") {
				m.violate("request-closed-and-ordered", "source-descriptors", "plugin %s: source file descriptors %v do not match files to generate %v", p.name, r.sourceDesc, r.toGenerate)
			}
			if p.strategy == "all" && len(m.reqs[p.index]) > 1 {
				m.violate("exactly-once", "strategy", "plugin %s with strategy all received %d requests", p.name, len(m.reqs[p.index]))
			}
		}
		// a run that failed early may not have invoked every plugin: only check what was requested
		complete := genErr == nil
		for _, f := range simfs.SortedKeys(got) {
			if got[f] > 1 {
				m.violate("exactly-once", "duplicate", "plugin %s was asked to generate %s %d times", p.name, f, got[f])
			}
			if !want[f] {
				m.violate("exactly-once", "unrequested", "plugin %s was asked to generate %s which is neither targeted nor a requested import", p.name, f)
			}
		}
		if len(p.typeFilter) > 0 {
			// which files keep something under a type filter is the filter's business (C12): this plugin may
			// be asked for fewer files, never for other ones or twice - and the OTHER plugins for no fewer
			m.s.Probe("plugin-with-type-filter")
		} else if complete {
			for _, f := range simfs.SortedKeys(want) {
				if got[f] == 0 {
					m.violate("exactly-once", "missing", "plugin %s was never asked to generate %s", p.name, f)
				}
			}
		}
	}

	// (3)-(5) the output tree
	wantTree, refErr := m.referenceTree()
	hostile, failing := false, false
	for _, p := range m.plugins {
		if p.behaviour == "hostile" && len(m.produced[p.index]) > 0 {
			hostile = true
		}
		if p.behaviour == "error" && len(m.reqs[p.index]) > 0 {
			failing = true
		}
	}
	m.hostileRun = hostile
	mustFail := refErr != nil || hostile || failing
	// with clean: true the output directories are emptied before any plugin runs
	cleaned := map[string]string{}
	for k, v := range before {
		inOut := false
		if m.clean {
			for _, p := range m.plugins {
				if strings.HasPrefix(k, m.outKey(p.out)+"/") {
					inOut = true
				}
			}
		}
		if !inOut {
			cleaned[k] = v
		}
	}
	unchanged := func() string {
		return diff(cleaned, after)
	}
	if mustFail {
		if genErr == nil {
			why := "a plugin failed"
			if refErr != nil {
				why = refErr.Error()
			} else if hostile {
				why = "a plugin returned a name outside its output directory"
			}
			m.violate("generate-fails-cleanly", "no-error", "Generate returned nil although %s", why)
		}
		if d := unchanged(); d != "" && genErr != nil {
			m.violate("generate-fails-cleanly", "partial-output", "Generate failed (%v) but the file tree changed: %s", genErr, d)
		}
		s.Probe("generate-failed-as-expected")
	} else {
		if genErr != nil {
			m.violate("output-in-configuration-order", "error", "Generate failed although every plugin succeeded: %v", genErr)
		} else {
			want := map[string]string{}
			for k, v := range cleaned {
				want[k] = v
			}
			for k, v := range wantTree {
				want[path.Clean("proj/"+k)] = v
			}
			if d := diff(want, after); d != "" {
				m.violate("output-in-configuration-order", "tree", "output tree differs from applying the responses in configuration order (completion order %v): %s", m.completion, d)
			}
			for _, p := range m.plugins {
				if p.behaviour == "insert" {
					s.Probe("insertion-point-applied")
					if p.insertInto != p.index-1 {
						s.Probe("insertion-into-non-adjacent-plugin")
					}
				}
			}
		}
	}
	// containment, always: nothing outside the configured out directories changes
	for _, k := range simfs.SortedKeys(after) {
		inside := false
		for _, p := range m.plugins {
			if strings.HasPrefix(k, m.outKey(p.out)+"/") {
				inside = true
			}
		}
		if !inside && before[k] != after[k] {
			m.violate("output-contained", "outside", "%s outside every plugin output directory was created or changed", k)
		}
	}
	for _, k := range simfs.SortedKeys(cleaned) {
		if _, ok := after[k]; !ok {
			m.violate("output-contained", "deleted", "%s was deleted", k)
		}
	}
	if len(m.completion) > 1 && !sort.IntsAreSorted(m.completion) {
		s.Probe("plugin-completion-reordered")
	}
	s.Drain()
	out := engine.FromSim(s)
	out.Sample = map[string]any{"plugins": specs, "files": len(image.Files()), "completion_order": m.completion, "error": genErr != nil, "buf_gen_yaml": strings.ReplaceAll(yaml, env.Scratch, "<scratch>")}
	return out
}

func diff(want, got map[string]string) string {
	var out []string
	for _, k := range simfs.SortedKeys(want) {
		g, ok := got[k]
		if !ok {
			out = append(out, "missing "+k)
		} else if g != want[k] && strings.TrimRight(g, "\n") != want[k] {
			out = append(out, fmt.Sprintf("differs %s (%q vs %q)", k, clip(want[k]), clip(g)))
		}
	}
	for _, k := range simfs.SortedKeys(got) {
		if _, ok := want[k]; !ok {
			out = append(out, "extra "+k)
		}
	}
	if len(out) > 4 {
		out = append(out[:4], "...")
	}
	return strings.Join(out, "; ")
}

func clip(s string) string {
	if len(s) > 60 {
		return s[:60]
	}
	return s
}
