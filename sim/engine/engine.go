// Package engine is the shared run loop of all simulation engines: it maps run
// indices to tapes, executes each run inside a synctest bubble, re-checks
// determinism, shrinks failing tapes, writes replay files and a JSON result.
package engine

import (
	"encoding/json"
	"fmt"
	"hash/fnv"
	"os"
	"path/filepath"
	"runtime"
	"sort"
	"strconv"
	"strings"
	"sync/atomic"
	"testing"
	"testing/synctest"
	"time"

	"github.com/bufbuild/verif/sched"
	"github.com/bufbuild/verif/tape"
)

// Outcome is what one simulated run reports.
type Outcome struct {
	TraceHash  string            `json:"trace_hash"`
	SchedHash  string            `json:"sched_hash"`
	Steps      int               `json:"steps"`
	SimTimeUS  int64             `json:"sim_time_us"`
	Faults     map[string]int    `json:"faults,omitempty"`
	Probes     map[string]int    `json:"probes,omitempty"`
	Counters   map[string]int    `json:"counters,omitempty"`
	Violations []sched.Violation `json:"violations,omitempty"`
	Trace      []string          `json:"trace,omitempty"`
	Nontrivial bool              `json:"nontrivial"`
	Sample     any               `json:"sample,omitempty"`
	// Distinct holds additional keys whose distinct count is reported (e.g.
	// crash-state hashes), by measure name.
	Distinct map[string][]string `json:"-"`
	// Stall is set when the run hit its step limit or deadlocked in the harness sense.
	Harness string `json:"harness,omitempty"`
}

// Env is passed to an engine run.
type Env struct {
	Property  string
	Tier      string
	Scratch   string // fresh directory for this run
	KeepTrace bool
	Progress  *atomic.Int64
	T         *testing.T
}

// RunFunc executes one run inside the bubble.
type RunFunc func(tp *tape.Tape, env *Env) *Outcome

// FromSim fills the generic parts of an Outcome from a finished Sim.
func FromSim(s *sched.Sim) *Outcome {
	o := &Outcome{
		TraceHash:  s.TraceHash(),
		SchedHash:  s.SchedHash(),
		Steps:      s.Steps,
		SimTimeUS:  s.Now.Microseconds(),
		Faults:     s.Faults,
		Probes:     s.Probes,
		Violations: s.Violations,
		Trace:      s.TraceLines,
	}
	nf := 0
	for _, n := range s.Faults {
		nf += n
	}
	o.Nontrivial = s.Choices >= 1 || nf >= 1
	if s.StepLimit {
		o.Harness = "step-limit"
	}
	return o
}

// Replay is the on-disk replay file.
type Replay struct {
	Property  string          `json:"property"`
	Engine    string          `json:"engine"`
	Seed      uint64          `json:"seed"`
	Run       uint64          `json:"run"`
	Tier      string          `json:"tier"`
	Tape      []uint32        `json:"tape"`
	Violation sched.Violation `json:"violation"`
	TraceHash string          `json:"trace_hash"`
	Trace     []string        `json:"trace"`
	Sample    any             `json:"sample,omitempty"`
	// Ambient: the violation does not reproduce from its tape every time: it depends on
	// something the simulator cannot seed (Go map iteration order, runtime scheduling
	// between yields). Hits/Attempts is the reproduction rate measured when it was found.
	Ambient  bool `json:"ambient,omitempty"`
	Attempts int  `json:"attempts,omitempty"`
	Hits     int  `json:"hits,omitempty"`
	// Crash: the worker process died in this run with a panic or fatal error whose origin is the
	// code under test (written by the driver, which sees the dead process; there is no consumed
	// tape, the run is re-created from seed and run index). Cpu is the -test.cpu value it ran with.
	Crash      bool   `json:"crash,omitempty"`
	Cpu        string `json:"cpu,omitempty"`
	ShrunkFrom int    `json:"shrunk_from_draws"`
	ShrunkTo   int    `json:"shrunk_to_draws"`
	Candidates int    `json:"shrink_candidates"`
}

// Result is the per-worker JSON result.
type Result struct {
	Property   string         `json:"property"`
	Engine     string         `json:"engine"`
	Seed       uint64         `json:"seed"`
	Tier       string         `json:"tier"`
	From       uint64         `json:"from"`
	To         uint64         `json:"to"`
	Runs       int            `json:"runs"`
	Nontrivial int            `json:"nontrivial"`
	Steps      int64          `json:"steps"`
	SimTimeUS  int64          `json:"sim_time_us"`
	WallS      float64        `json:"wall_s"`
	Faults     map[string]int `json:"faults"`
	Probes     map[string]int `json:"probes"`
	Counters   map[string]int `json:"counters"`
	// DistinctNontrivial holds 64-bit hashes of (sched hash, fired fault multiset) of nontrivial runs.
	DistinctNontrivial []string            `json:"distinct_nontrivial"`
	Distinct           map[string][]string `json:"distinct"`
	Recheck            int                 `json:"recheck"`
	RecheckMismatch    int                 `json:"recheck_mismatch"`
	Samples            []any               `json:"samples"`
	Violations         []ViolationReport   `json:"violations"`
	HarnessIssues      map[string]int      `json:"harness_issues"`
	TraceHashes        []string            `json:"trace_hashes,omitempty"`
	Error              string              `json:"error,omitempty"`
}

// ViolationReport is a violation with its replay file.
type ViolationReport struct {
	Sig    string `json:"sig"`
	Oracle string `json:"oracle"`
	Msg    string `json:"msg"`
	Run    uint64 `json:"run"`
	Replay string `json:"replay"`
	Count  int    `json:"count"`
}

func envUint(name string, def uint64) uint64 {
	v := os.Getenv(name)
	if v == "" {
		return def
	}
	n, err := strconv.ParseUint(v, 10, 64)
	if err != nil {
		fmt.Fprintf(os.Stderr, "bad %s=%q\n", name, v)
		os.Exit(2)
	}
	return n
}

var progress atomic.Int64

func startWatchdog() {
	limit := time.Duration(envUint("VERIF_WATCHDOG_S", 120)) * time.Second
	go func() {
		last := progress.Load()
		lastChange := time.Now()
		for {
			time.Sleep(2 * time.Second)
			cur := progress.Load()
			if cur != last {
				last = cur
				lastChange = time.Now()
				continue
			}
			if time.Since(lastChange) > limit {
				buf := make([]byte, 1<<22)
				n := runtime.Stack(buf, true)
				fmt.Fprintf(os.Stderr, "HARNESS STALL: no scheduler progress for %v\n%s\n", limit, buf[:n])
				os.Exit(2)
			}
		}
	}()
}

func execOnce(t *testing.T, engine string, f RunFunc, tp *tape.Tape, env *Env) (out *Outcome) {
	dir, err := os.MkdirTemp(scratchRoot(), "run-")
	if err != nil {
		fmt.Fprintln(os.Stderr, "scratch:", err)
		os.Exit(2)
	}
	defer os.RemoveAll(dir)
	e := *env
	e.Scratch = dir
	e.Progress = &progress
	e.T = t
	defer func() {
		if r := recover(); r != nil {
			// synctest reports a leftover blocked goroutine as a panic: a harness problem.
			fmt.Fprintf(os.Stderr, "HARNESS PANIC in %s: %v\n", engine, r)
			buf := make([]byte, 1<<20)
			n := runtime.Stack(buf, false)
			fmt.Fprintf(os.Stderr, "%s\n", buf[:n])
			os.Exit(2)
		}
	}()
	synctest.Test(t, func(t *testing.T) {
		e.T = t
		out = f(tp, &e)
	})
	progress.Add(1)
	return out
}

func scratchRoot() string {
	root := os.Getenv("VERIF_SCRATCH")
	if root == "" {
		root = fmt.Sprintf("/dev/shm/verif-%d", os.Getpid())
	}
	if err := os.MkdirAll(root, 0o755); err != nil {
		fmt.Fprintln(os.Stderr, "scratch:", err)
		os.Exit(2)
	}
	return root
}

func hash64(parts ...string) string {
	h := fnv.New64a()
	for _, p := range parts {
		h.Write([]byte(p))
		h.Write([]byte{0})
	}
	return strconv.FormatUint(h.Sum64(), 16)
}

func faultSig(m map[string]int) string {
	keys := make([]string, 0, len(m))
	for k, v := range m {
		keys = append(keys, k+"="+strconv.Itoa(v))
	}
	sort.Strings(keys)
	return strings.Join(keys, ",")
}

func hasSig(o *Outcome, sig string) *sched.Violation {
	for i := range o.Violations {
		if o.Violations[i].Sig == sig {
			return &o.Violations[i]
		}
	}
	return nil
}

// Main is the body of an engine's single Test function.
func Main(t *testing.T, engine string, f RunFunc) {
	startWatchdog()
	property := os.Getenv("VERIF_PROPERTY")
	tier := os.Getenv("VERIF_TIER")
	if tier == "" {
		tier = "quick"
	}
	env := &Env{Property: property, Tier: tier, KeepTrace: os.Getenv("VERIF_DUMP_MISMATCH") != ""}
	if rp := os.Getenv("VERIF_REPLAY"); rp != "" {
		replayMain(t, engine, f, env, rp)
		return
	}
	seed := envUint("VERIF_SEED", 1)
	from := envUint("VERIF_FROM", 0)
	to := envUint("VERIF_TO", 10)
	outPath := os.Getenv("VERIF_OUT")
	recheckEvery := envUint("VERIF_RECHECK_EVERY", 50)
	shrinkBudget := time.Duration(envUint("VERIF_SHRINK_S", 60)) * time.Second
	maxWall := time.Duration(envUint("VERIF_MAX_WALL_S", 0)) * time.Second
	replayDir := os.Getenv("VERIF_REPLAY_DIR")
	if replayDir == "" {
		replayDir = "/verif/replays"
	}
	defer os.RemoveAll(scratchRoot())

	res := &Result{
		Property: property, Engine: engine, Seed: seed, Tier: tier, From: from, To: to,
		Faults: map[string]int{}, Probes: map[string]int{}, Counters: map[string]int{},
		Distinct: map[string][]string{}, HarnessIssues: map[string]int{},
	}
	distinct := map[string]struct{}{}
	distinctExtra := map[string]map[string]struct{}{}
	bySig := map[string]*ViolationReport{}
	start := time.Now()
	for run := from; run < to; run++ {
		if maxWall > 0 && time.Since(start) > maxWall {
			res.To = run
			break
		}
		tp := tape.New(seed, property, run)
		if outPath != "" {
			// which run is being executed: read by the driver if this process dies
			_ = os.WriteFile(outPath+".cur", []byte(strconv.FormatUint(run, 10)), 0o644)
		}
		out := execOnce(t, engine, f, tp, env)
		res.Runs++
		if os.Getenv("VERIF_TRACEHASHES") != "" {
			res.TraceHashes = append(res.TraceHashes, out.TraceHash)
		}
		res.Steps += int64(out.Steps)
		res.SimTimeUS += out.SimTimeUS
		for k, v := range out.Faults {
			res.Faults[k] += v
		}
		for k, v := range out.Probes {
			res.Probes[k] += v
		}
		for k, v := range out.Counters {
			res.Counters[k] += v
		}
		if out.Harness != "" {
			res.HarnessIssues[out.Harness]++
		}
		if out.Nontrivial {
			res.Nontrivial++
			distinct[hash64(out.SchedHash, faultSig(out.Faults))] = struct{}{}
		}
		for m, keys := range out.Distinct {
			if distinctExtra[m] == nil {
				distinctExtra[m] = map[string]struct{}{}
			}
			for _, k := range keys {
				distinctExtra[m][k] = struct{}{}
			}
		}
		if len(res.Samples) < 3 && out.Sample != nil && (out.Nontrivial || run == to-1) {
			res.Samples = append(res.Samples, out.Sample)
		}
		if recheckEvery > 0 && (run%recheckEvery == 0 || len(out.Violations) > 0) {
			out2 := execOnce(t, engine, f, tape.Replay(tp.Consumed()), env)
			res.Recheck++
			if out2.TraceHash != out.TraceHash {
				res.RecheckMismatch++
				fmt.Fprintf(os.Stderr, "DETERMINISM MISMATCH engine=%s property=%s seed=%d run=%d %s vs %s\n", engine, property, seed, run, out.TraceHash, out2.TraceHash)
				if os.Getenv("VERIF_DUMP_MISMATCH") != "" {
					_ = os.WriteFile(fmt.Sprintf("/dev/shm/mismatch-%s-%d-a.txt", engine, run), []byte(strings.Join(out.Trace, "\n")), 0o644)
					_ = os.WriteFile(fmt.Sprintf("/dev/shm/mismatch-%s-%d-b.txt", engine, run), []byte(strings.Join(out2.Trace, "\n")), 0o644)
				}
			}
		}
		seenThisRun := map[string]bool{}
		for _, v := range out.Violations {
			if seenThisRun[v.Sig] {
				continue
			}
			seenThisRun[v.Sig] = true
			if vr := bySig[v.Sig]; vr != nil {
				vr.Count++
				continue
			}
			// the n-th distinct violation of a worker gets half the minimisation budget of the one
			// before (at least 5 s), so that a badly broken tree cannot keep a worker busy for long
			budget := shrinkBudget >> uint(min(len(bySig), 6))
			if budget < 5*time.Second {
				budget = 5 * time.Second
			}
			rp := shrinkAndWrite(t, engine, f, env, seed, run, tp.Consumed(), v, budget, replayDir)
			bySig[v.Sig] = &ViolationReport{Sig: v.Sig, Oracle: v.Oracle, Msg: v.Msg, Run: run, Replay: rp, Count: 1}
		}
	}
	res.WallS = time.Since(start).Seconds()
	for k := range distinct {
		res.DistinctNontrivial = append(res.DistinctNontrivial, k)
	}
	sort.Strings(res.DistinctNontrivial)
	for m, set := range distinctExtra {
		for k := range set {
			res.Distinct[m] = append(res.Distinct[m], k)
		}
		sort.Strings(res.Distinct[m])
	}
	sigs := make([]string, 0, len(bySig))
	for s := range bySig {
		sigs = append(sigs, s)
	}
	sort.Strings(sigs)
	for _, s := range sigs {
		res.Violations = append(res.Violations, *bySig[s])
	}
	data, _ := json.Marshal(res)
	if outPath != "" {
		if err := os.WriteFile(outPath, data, 0o644); err != nil {
			fmt.Fprintln(os.Stderr, "write result:", err)
			os.Exit(2)
		}
	} else {
		fmt.Println(string(data))
	}
}

func shrinkAndWrite(t *testing.T, engine string, f RunFunc, env *Env, seed, run uint64, rec []uint32, v sched.Violation, budget time.Duration, replayDir string) string {
	best := append([]uint32(nil), rec...)
	candidates := 0
	deadline := time.Now().Add(budget)
	try := func(c []uint32) bool {
		if time.Now().After(deadline) {
			return false
		}
		candidates++
		out := execOnce(t, engine, f, tape.Replay(c), env)
		return hasSig(out, v.Sig) != nil
	}
	// make sure the recorded tape reproduces at all, and does so every time
	stable := true
	for i := 0; i < 5 && stable; i++ {
		stable = try(best)
	}
	if !stable {
		// not a pure function of the tape: measure how often it reproduces
		attempts, hits := 1, 0
		for attempts < 64 && time.Now().Before(deadline) {
			attempts++
			candidates++
			out := execOnce(t, engine, f, tape.Replay(best), env)
			if hasSig(out, v.Sig) != nil {
				hits++
			}
		}
		fmt.Fprintf(os.Stderr, "AMBIENT: violation %s of run %d reproduced %d/%d times from its own tape\n", v.Sig, run, hits, attempts)
		rp := Replay{
			Property: env.Property, Engine: engine, Seed: seed, Run: run, Tier: env.Tier,
			Tape: best, Violation: v, Ambient: true, Attempts: attempts, Hits: hits,
			ShrunkFrom: len(rec), ShrunkTo: len(rec), Candidates: candidates,
		}
		return writeReplay(rp, replayDir, env.Property, v.Sig, seed, run)
	}
	best = Shrink(best, try)
	e2 := *env
	e2.KeepTrace = true
	tp := tape.Replay(best)
	out := execOnce(t, engine, f, tp, &e2)
	vv := hasSig(out, v.Sig)
	if vv == nil {
		// the violation is not a pure function of the tape after all: keep the original tape
		fmt.Fprintf(os.Stderr, "AMBIENT: shrunk tape lost violation %s; keeping the unshrunk tape\n", v.Sig)
		rp := Replay{
			Property: env.Property, Engine: engine, Seed: seed, Run: run, Tier: env.Tier,
			Tape: rec, Violation: v, Ambient: true, Attempts: candidates, Hits: 0,
			ShrunkFrom: len(rec), ShrunkTo: len(rec), Candidates: candidates,
		}
		return writeReplay(rp, replayDir, env.Property, v.Sig, seed, run)
	}
	// normalise: the tape as consumed (padding zeros made explicit)
	final := tp.Consumed()
	rp := Replay{
		Property: env.Property, Engine: engine, Seed: seed, Run: run, Tier: env.Tier,
		Tape: final, Violation: *vv, TraceHash: out.TraceHash, Trace: out.Trace, Sample: out.Sample,
		ShrunkFrom: len(rec), ShrunkTo: len(trimZeros(best)), Candidates: candidates,
	}
	return writeReplay(rp, replayDir, env.Property, v.Sig, seed, run)
}

func writeReplay(rp Replay, replayDir, property, sig string, seed, run uint64) string {
	_ = os.MkdirAll(replayDir, 0o755)
	name := fmt.Sprintf("%s-%s-%d-%d.json", property, sanitize(sig), seed, run)
	path := filepath.Join(replayDir, name)
	data, _ := json.MarshalIndent(rp, "", " ")
	if err := os.WriteFile(path, data, 0o644); err != nil {
		fmt.Fprintln(os.Stderr, "write replay:", err)
		os.Exit(2)
	}
	return path
}

func sanitize(s string) string {
	var b strings.Builder
	for _, r := range s {
		switch {
		case r >= 'a' && r <= 'z', r >= 'A' && r <= 'Z', r >= '0' && r <= '9', r == '-', r == '_', r == '.':
			b.WriteRune(r)
		default:
			b.WriteByte('_')
		}
	}
	out := b.String()
	if len(out) > 80 {
		out = out[:80]
	}
	return out
}

func trimZeros(c []uint32) []uint32 {
	n := len(c)
	for n > 0 && c[n-1] == 0 {
		n--
	}
	return c[:n]
}

// Shrink minimises a failing tape: truncate, delete chunks, zero chunks, lower values.
func Shrink(best []uint32, try func([]uint32) bool) []uint32 {
	best = trimZeros(best)
	improved := true
	for improved {
		improved = false
		// truncate tail (binary search for the shortest failing prefix)
		lo, hi := 0, len(best)
		for lo < hi {
			mid := (lo + hi) / 2
			if try(best[:mid]) {
				hi = mid
			} else {
				lo = mid + 1
			}
		}
		if hi < len(best) && try(best[:hi]) {
			best = trimZeros(append([]uint32(nil), best[:hi]...))
			improved = true
		}
		// delete chunks
		for size := 32; size >= 1; size /= 2 {
			for i := 0; i+size <= len(best); {
				c := append(append([]uint32(nil), best[:i]...), best[i+size:]...)
				if try(c) {
					best = trimZeros(c)
					improved = true
				} else {
					i += size
				}
			}
		}
		// zero chunks / single draws
		for size := 16; size >= 1; size /= 2 {
			for i := 0; i+size <= len(best); i += size {
				allZero := true
				for _, v := range best[i : i+size] {
					if v != 0 {
						allZero = false
						break
					}
				}
				if allZero {
					continue
				}
				c := append([]uint32(nil), best...)
				for j := i; j < i+size; j++ {
					c[j] = 0
				}
				if try(c) {
					best = trimZeros(c)
					improved = true
				}
			}
		}
		// lower values
		for i := 0; i < len(best); i++ {
			for best[i] > 0 {
				c := append([]uint32(nil), best...)
				c[i] = best[i] / 2
				if try(c) {
					best = c
					improved = true
				} else {
					c[i] = best[i] - 1
					if c[i] != best[i]/2 && try(c) {
						best = c
						improved = true
					} else {
						break
					}
				}
			}
		}
		best = trimZeros(best)
	}
	return best
}

func replayMain(t *testing.T, engine string, f RunFunc, env *Env, path string) {
	data, err := os.ReadFile(path)
	if err != nil {
		fmt.Fprintln(os.Stderr, "read replay:", err)
		os.Exit(2)
	}
	var rp Replay
	if err := json.Unmarshal(data, &rp); err != nil {
		fmt.Fprintln(os.Stderr, "parse replay:", err)
		os.Exit(2)
	}
	env.Property = rp.Property
	if rp.Tier != "" {
		env.Tier = rp.Tier
	}
	env.KeepTrace = true
	defer os.RemoveAll(scratchRoot())
	if rp.Crash {
		// the process is expected to die inside this call; if it survives, the crash did not reproduce
		_ = execOnce(t, engine, f, tape.New(rp.Seed, rp.Property, rp.Run), env)
		js, _ := json.Marshal(map[string]any{"property": rp.Property, "replay": path, "sig": rp.Violation.Sig, "reproduced": false, "crash": true})
		if outPath := os.Getenv("VERIF_OUT"); outPath != "" {
			_ = os.WriteFile(outPath, js, 0o644)
		}
		return
	}
	out := execOnce(t, engine, f, tape.Replay(rp.Tape), env)
	v := hasSig(out, rp.Violation.Sig)
	attempts := 1
	if rp.Ambient {
		for v == nil && attempts < 64 {
			attempts++
			out = execOnce(t, engine, f, tape.Replay(rp.Tape), env)
			v = hasSig(out, rp.Violation.Sig)
		}
	}
	status := map[string]any{
		"ambient": rp.Ambient, "attempts": attempts,
		"property": rp.Property, "replay": path, "sig": rp.Violation.Sig,
		"reproduced": v != nil, "trace_hash_equal": out.TraceHash == rp.TraceHash,
		"trace_hash": out.TraceHash, "expected_trace_hash": rp.TraceHash,
	}
	if v != nil {
		status["msg"] = v.Msg
	}
	if os.Getenv("VERIF_REPLAY_TRACE") != "" {
		status["trace"] = out.Trace
	}
	js, _ := json.Marshal(status)
	if outPath := os.Getenv("VERIF_OUT"); outPath != "" {
		_ = os.WriteFile(outPath, js, 0o644)
	} else {
		fmt.Println(string(js))
	}
}
