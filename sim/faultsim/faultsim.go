// Package faultsim decides C15: write failures are always reported, atomic
// puts are all-or-nothing.
package faultsim

import (
	"bytes"
	"context"
	"errors"
	"fmt"
	"io"
	"os"
	"os/signal"
	"path/filepath"
	"sort"
	"strings"
	"syscall"

	"github.com/bufbuild/buf/private/buf/bufmigrate"
	"github.com/bufbuild/buf/private/buf/bufwkt/bufwktstore"
	bufcli "github.com/bufbuild/buf/private/buf/cmd/buf"
	"github.com/bufbuild/buf/private/bufpkg/bufcas"
	"github.com/bufbuild/buf/private/bufpkg/bufconfig"
	"github.com/bufbuild/buf/private/bufpkg/bufmodule"
	"github.com/bufbuild/buf/private/bufpkg/bufmodule/bufmodulestore"
	"github.com/bufbuild/buf/private/bufpkg/bufparse"
	"github.com/bufbuild/buf/private/bufpkg/bufprotoplugin/bufprotopluginos"
	"github.com/bufbuild/buf/private/gen/data/datawkt"
	"github.com/bufbuild/buf/private/pkg/app"
	"github.com/bufbuild/buf/private/pkg/app/appcmd"
	"github.com/bufbuild/buf/private/pkg/filelock"
	"github.com/bufbuild/buf/private/pkg/slogext"
	"github.com/bufbuild/buf/private/pkg/storage"
	"github.com/bufbuild/buf/private/pkg/storage/storagearchive"
	"github.com/bufbuild/buf/private/pkg/storage/storagemem"
	"github.com/bufbuild/buf/private/pkg/storage/storageos"
	"github.com/bufbuild/buf/private/pkg/thread"
	"github.com/bufbuild/buf/private/pkg/verifhook"
	"github.com/bufbuild/verif/engine"
	"github.com/bufbuild/verif/gen"
	"github.com/bufbuild/verif/modgen"
	"github.com/bufbuild/verif/sched"
	"github.com/bufbuild/verif/simfs"
	"github.com/bufbuild/verif/tape"
	"github.com/bufbuild/verif/wsgen"
	"google.golang.org/protobuf/proto"
	"google.golang.org/protobuf/types/pluginpb"
)

// caseData is one generated case.
type caseData struct {
	files   map[string][]byte
	paths   []string
	atomic  bool
	dstKind string // mem | os | osmap
	wp      *writePath
	tarData []byte
	zipData []byte
	par     int
	u       *modgen.Universe
	ws      *wsgen.Workspace
	sim     *sched.Sim
	// preDest prepares the destination of the next execution before the write path runs
	preDest func(d *dest)
	srcDir  string // cli: the workspace on disk
	// unwrapped: the write path gets the real disk bucket itself, without the simulator's wrapper (and so
	// sees whatever optional interfaces its objects implement); no scheduling points, no injected faults
	unwrapped bool
	// oldFiles: what the destination held before the write path ran (paths that populate it themselves)
	oldFiles map[string]string
	// srcWrap, when set, puts the simulator's wrapper in front of the source bucket: opening and
	// reading source objects become scheduling and fault points ("src:" positions)
	srcWrap func(storage.ReadBucket) storage.ReadBucket
	// shape: a per-case choice of the write path (which boundary shape its input has)
	shape int
}

func init() {
	// the file-size-limit executions lower RLIMIT_FSIZE: write(2) must answer EFBIG, not kill the process
	signal.Ignore(syscall.SIGXFSZ)
}

type dest struct {
	bucket storage.ReadWriteBucket // what the write path sees
	raw    storage.ReadWriteBucket // un-instrumented view for state snapshots
	writer *faultWriter
	dir    string
	// provider hands out instrumented disk buckets (for code that opens its own)
	provider storageos.Provider
	// healed: the later invocation of a healing path, after a failed one, reported success
	healed bool
}

type writePath struct {
	name    string
	stream  bool // destination is an io.Writer
	modules bool // needs a module universe
	osOnly  bool // destination is always a real directory (reached through a storageos.Provider)
	rawDst  bool // the code writes the destination file itself (faults come from the raw hooks below)
	// expect, when set, is the destination state the path must produce, computed by the harness itself from
	// the inputs (otherwise the fault-free execution defines it); mayReject: the fault-free execution may
	// refuse the input with an error (then there is nothing to enumerate) - but it may not succeed with less
	expect    func(c *caseData) map[string]string
	mayReject func(c *caseData) bool
	cli     bool // a CLI command run in-process on a generated workspace; it opens the destination itself (raw hooks)
	// heals: a cache that every invocation validates and repairs - after a failed invocation the path is
	// invoked once more on the same destination (no fault left); if that succeeds the state must be complete
	heals bool
	// slow: one invocation costs a tenth of a second: a fifth of the usual fault executions, no cancellation sweep
	slow bool
	// atomicFiles: destination objects the path puts atomically: after a FAILED run each of them is absent,
	// holds what it held before (caseData.oldFiles) or the complete new content - never part of it
	atomicFiles []string
	run         func(ctx context.Context, c *caseData, d *dest) error
}

func srcBucket(c *caseData) storage.ReadBucket {
	if c.srcDir != "" && !c.wp.cli {
		// the source is a directory on disk: walking it is storageos' business, and what the walk
		// callback returns (a failed write!) passes through storageos' own error handling
		b, err := storageos.NewProvider().NewReadWriteBucket(c.srcDir)
		if err != nil {
			panic(err)
		}
		if c.srcWrap != nil {
			return c.srcWrap(b)
		}
		return b
	}
	b, err := storagemem.NewReadBucket(c.files)
	if err != nil {
		panic(err)
	}
	if c.srcWrap != nil {
		return c.srcWrap(b)
	}
	return b
}

func copyOpts(c *caseData) []storage.CopyOption {
	if c.atomic {
		return []storage.CopyOption{storage.CopyWithAtomic()}
	}
	return nil
}

func putOpts(c *caseData) []storage.PutOption {
	if c.atomic {
		return []storage.PutOption{storage.PutWithAtomic()}
	}
	return nil
}

var writePaths = []*writePath{
	{name: "Copy", run: func(ctx context.Context, c *caseData, d *dest) error {
		_, err := storage.Copy(ctx, srcBucket(c), d.bucket, copyOpts(c)...)
		return err
	}},
	{name: "CopyPath", run: func(ctx context.Context, c *caseData, d *dest) error {
		src := srcBucket(c)
		for _, p := range c.paths {
			if err := storage.CopyPath(ctx, src, p, d.bucket, p, copyOpts(c)...); err != nil {
				return err
			}
		}
		return nil
	}},
	{name: "PutPath", run: func(ctx context.Context, c *caseData, d *dest) error {
		for _, p := range c.paths {
			if err := storage.PutPath(ctx, d.bucket, p, c.files[p], putOpts(c)...); err != nil {
				return err
			}
		}
		return nil
	}},
	{name: "CopyReader", run: func(ctx context.Context, c *caseData, d *dest) error {
		for _, p := range c.paths {
			if err := storage.CopyReader(ctx, d.bucket, bytes.NewReader(c.files[p]), p); err != nil {
				return err
			}
		}
		return nil
	}},
	{name: "CopyReadObject", run: func(ctx context.Context, c *caseData, d *dest) error {
		src := srcBucket(c)
		for _, p := range c.paths {
			if err := storage.ForReadObject(ctx, src, p, func(ro storage.ReadObject) error {
				return storage.CopyReadObject(ctx, d.bucket, ro, copyOpts(c)...)
			}); err != nil {
				return err
			}
		}
		return nil
	}},
	{name: "ForWriteObject", run: func(ctx context.Context, c *caseData, d *dest) error {
		for _, p := range c.paths {
			data := c.files[p]
			if err := storage.ForWriteObject(ctx, d.bucket, p, func(wo storage.WriteObject) error {
				_, err := wo.Write(data)
				return err
			}, putOpts(c)...); err != nil {
				return err
			}
		}
		return nil
	}},
	{name: "Untar", run: func(ctx context.Context, c *caseData, d *dest) error {
		return storagearchive.Untar(ctx, bytes.NewReader(c.tarData), d.bucket)
	}},
	{name: "Unzip", run: func(ctx context.Context, c *caseData, d *dest) error {
		return storagearchive.Unzip(ctx, bytes.NewReader(c.zipData), int64(len(c.zipData)), d.bucket)
	}},
	{name: "Tar", stream: true, run: func(ctx context.Context, c *caseData, d *dest) error {
		return storagearchive.Tar(ctx, srcBucket(c), d.writer)
	}},
	{name: "Zip", stream: true, run: func(ctx context.Context, c *caseData, d *dest) error {
		return storagearchive.Zip(ctx, srcBucket(c), d.writer, c.atomic)
	}},
	{name: "PutFileSetToBucket", run: func(ctx context.Context, c *caseData, d *dest) error {
		fileSet, err := bufcas.NewFileSetForBucket(ctx, srcBucket(c))
		if err != nil {
			return fmt.Errorf("harness: %w", err)
		}
		return bufcas.PutFileSetToBucket(ctx, fileSet, d.bucket)
	}},
}

// noModuleKeys: the configurations migrated here have no dependencies to resolve.
type noModuleKeys struct{}

func (noModuleKeys) GetModuleKeysForModuleRefs(_ context.Context, refs []bufparse.Ref, _ bufmodule.DigestType) ([]bufmodule.ModuleKey, error) {
	if len(refs) > 0 {
		return nil, errors.New("harness: no registry")
	}
	return nil, nil
}

func init() {
	writePaths = append(writePaths,
		// `buf config migrate`: v1 configuration files are deleted, a v2 buf.yaml is put atomically
		// (slow: every invocation sets up the lint / breaking rule catalogue - few fault executions)
		&writePath{name: "Migrator.Migrate", slow: true, atomicFiles: []string{"buf.yaml"}, run: func(ctx context.Context, c *caseData, d *dest) error {
			old := map[string]string{
				"a/a/v1/a.proto": "syntax = \"proto3\";\npackage a.v1;\nmessage A {}\n",
				"b/b/v1/b.proto": "syntax = \"proto3\";\npackage b.v1;\nimport \"a/v1/a.proto\";\nmessage B { a.v1.A a = 1; }\n",
			}
			workspaceDirs := []string{"."}
			var moduleDirs []string
			if len(c.paths)%2 == 0 {
				// a v1 workspace of two modules
				old["buf.work.yaml"] = "version: v1\ndirectories:\n  - a\n  - b\n"
				old["a/buf.yaml"] = "version: v1\nname: buf.build/acme/a\nlint:\n  use:\n    - STANDARD\n  except:\n    - PACKAGE_VERSION_SUFFIX\nbreaking:\n  use:\n    - FILE\n"
				old["b/buf.yaml"] = "version: v1beta1\nname: buf.build/acme/b\nbuild:\n  roots:\n    - .\nlint:\n  use:\n    - BASIC\n"
			} else {
				// one v1 module whose buf.yaml sits where the v2 file will be
				old = map[string]string{"a/v1/a.proto": old["a/a/v1/a.proto"]}
				old["buf.yaml"] = "version: v1\nname: buf.build/acme/a\nlint:\n  use:\n    - STANDARD\n  ignore:\n    - a/v1/a.proto\nbreaking:\n  use:\n    - WIRE_JSON\n"
				workspaceDirs, moduleDirs = nil, []string{"."}
			}
			c.oldFiles = old
			for p, content := range old {
				if err := storage.PutPath(context.Background(), d.raw, p, []byte(content)); err != nil {
					return fmt.Errorf("harness: %w", err)
				}
			}
			migrator := bufmigrate.NewMigrator(slogext.NopLogger, noModuleKeys{}, bufmodule.NopCommitProvider)
			return migrator.Migrate(ctx, d.bucket, workspaceDirs, moduleDirs, nil)
		}},
		// the cache of well-known types every `buf ls-files` / LSP start goes through: populated by a plain
		// copy, validated against the embedded files on every call
		&writePath{name: "WKTStore.GetBucket", heals: true, run: func(ctx context.Context, c *caseData, d *dest) error {
			store := bufwktstore.NewStore(slogext.NopLogger, d.bucket)
			_, err := store.GetBucket(ctx)
			if err != nil && ctx.Err() == nil {
				// a later run, nothing failing any more
				if _, err2 := store.GetBucket(ctx); err2 == nil {
					d.healed = true
				}
			}
			return err
		}},
		&writePath{name: "ModuleDataStore.Put(dir)", modules: true, run: func(ctx context.Context, c *caseData, d *dest) error {
			return putModules(ctx, c, d, false)
		}},
		&writePath{name: "ModuleDataStore.Put(tar)", modules: true, run: func(ctx context.Context, c *caseData, d *dest) error {
			return putModules(ctx, c, d, true)
		}},
		&writePath{name: "CommitStore.Put", modules: true, run: func(ctx context.Context, c *caseData, d *dest) error {
			var idx []int
			for i := range c.u.Modules {
				idx = append(idx, i)
			}
			commits, err := c.u.Provider.GetCommitsForModuleKeys(ctx, c.u.Keys(idx))
			if err != nil {
				return fmt.Errorf("harness: %w", err)
			}
			return bufmodulestore.NewCommitStore(slogext.NopLogger, d.bucket).PutCommits(ctx, commits)
		}},
		&writePath{name: "PutBufLockFile", modules: true, run: func(ctx context.Context, c *caseData, d *dest) error {
			var idx []int
			for i := range c.u.Modules {
				idx = append(idx, i)
			}
			version := bufconfig.FileVersionV2
			if c.u.DigestType == bufmodule.DigestTypeB4 {
				version = bufconfig.FileVersionV1
			}
			f, err := bufconfig.NewBufLockFile(version, c.u.Keys(idx), nil)
			if err != nil {
				return fmt.Errorf("harness: %w", err)
			}
			return bufconfig.PutBufLockFileForPrefix(ctx, d.bucket, "proj", f)
		}},
		&writePath{name: "PutBufWorkYAMLFile", run: func(ctx context.Context, c *caseData, d *dest) error {
			dirs := []string{}
			seen := map[string]bool{}
			for _, p := range c.paths {
				dir := filepath.Dir(p)
				if dir != "." && !seen[dir] && !strings.Contains(dir, "/") {
					seen[dir] = true
					dirs = append(dirs, dir)
				}
			}
			if len(dirs) == 0 {
				dirs = []string{"proto"}
			}
			f, err := bufconfig.NewBufWorkYAMLFile(bufconfig.FileVersionV1, dirs)
			if err != nil {
				return fmt.Errorf("harness: %w", err)
			}
			return bufconfig.PutBufWorkYAMLFileForPrefix(ctx, d.bucket, ".", f)
		}},
		&writePath{name: "PutBufYAMLFile", run: func(ctx context.Context, c *caseData, d *dest) error {
			text := "version: v2\nmodules:\n  - path: proto\n    name: buf.build/acme/x\n  - path: vendor\nlint:\n  use:\n    - STANDARD\n  except:\n    - COMMENT_FIELD\n"
			f, err := bufconfig.ReadBufYAMLFile(strings.NewReader(text), "buf.yaml")
			if err != nil {
				return fmt.Errorf("harness: %w", err)
			}
			return bufconfig.PutBufYAMLFileForPrefix(ctx, d.bucket, "ws", f)
		}},
		&writePath{name: "PutBufGenYAMLFile", run: func(ctx context.Context, c *caseData, d *dest) error {
			text := "version: v2\nplugins:\n  - local: protoc-gen-a\n    out: gen/a\n  - local: protoc-gen-b\n    out: gen/b\n    opt: paths=source_relative\n"
			f, err := bufconfig.ReadBufGenYAMLFile(strings.NewReader(text))
			if err != nil {
				return fmt.Errorf("harness: %w", err)
			}
			return bufconfig.PutBufGenYAMLFileForPrefix(ctx, d.bucket, ".", f)
		}},
		&writePath{name: "buf export", osOnly: true, cli: true, run: func(ctx context.Context, c *caseData, d *dest) error {
			return runExport(ctx, c, d)
		}},
		&writePath{name: "buf export --exclude-imports", osOnly: true, cli: true, run: func(ctx context.Context, c *caseData, d *dest) error {
			// another loop inside the command: the files are written from within the walk of the workspace directory
			return runExport(ctx, c, d, "--exclude-imports")
		}},
		&writePath{name: "PluginResponseWriter(zip)", osOnly: true, rawDst: true, run: func(ctx context.Context, c *caseData, d *dest) error {
			return writePluginArchive(ctx, c, d, "gen.zip")
		}},
		&writePath{name: "PluginResponseWriter(jar)", osOnly: true, rawDst: true, run: func(ctx context.Context, c *caseData, d *dest) error {
			return writePluginArchive(ctx, c, d, "out/gen.jar")
		}},
		&writePath{name: "PluginResponseWriter(dir)", osOnly: true, run: func(ctx context.Context, c *caseData, d *dest) (retErr error) {
			// generated files are staged in memory and flushed on Close
			w := bufprotopluginos.NewResponseWriter(slogext.NopLogger, d.provider, bufprotopluginos.ResponseWriterWithCreateOutDirIfNotExists())
			resp := &pluginpb.CodeGeneratorResponse{}
			for _, p := range c.paths {
				resp.File = append(resp.File, &pluginpb.CodeGeneratorResponse_File{Name: proto.String(p), Content: proto.String(string(c.files[p]))})
			}
			if err := w.AddResponse(ctx, resp, d.dir); err != nil {
				return err
			}
			return w.Close()
		}},
		// two plugins writing into one directory, the second inserting into the first one's file. Shapes: an
		// ordinary file; a line longer than a scanner's 64 KiB token limit BELOW the insertion point of the
		// target file; such a line in the INSERTED content. The expected tree is computed here, not taken
		// from a fault-free run: the path may refuse a long line, it may not succeed with less than everything.
		&writePath{name: "PluginResponseWriter(dir+insertion)", osOnly: true,
			mayReject: func(c *caseData) bool { return c.shape != 0 },
			expect: func(c *caseData) map[string]string {
				out := map[string]string{}
				for _, p := range c.paths {
					out[p] = insertionTarget(c, p)
				}
				t := c.paths[0]
				marker := "// @@protoc_insertion_point(tail)"
				i := strings.Index(out[t], marker)
				inserted := ""
				for _, l := range strings.Split(strings.TrimSuffix(insertionContent(c), "\n"), "\n") {
					inserted += l + "\n"
				}
				out[t] = out[t][:i] + inserted + out[t][i:]
				for p := range out {
					// (whether a file keeps its final newline after an insertion is not part of the statement)
					out[p] = strings.TrimRight(out[p], "\n")
				}
				return out
			},
			run: func(ctx context.Context, c *caseData, d *dest) error {
				w := bufprotopluginos.NewResponseWriter(slogext.NopLogger, d.provider, bufprotopluginos.ResponseWriterWithCreateOutDirIfNotExists())
				resp := &pluginpb.CodeGeneratorResponse{}
				for _, p := range c.paths {
					resp.File = append(resp.File, &pluginpb.CodeGeneratorResponse_File{Name: proto.String(p), Content: proto.String(insertionTarget(c, p))})
				}
				if err := w.AddResponse(ctx, resp, d.dir); err != nil {
					return err
				}
				second := &pluginpb.CodeGeneratorResponse{File: []*pluginpb.CodeGeneratorResponse_File{
					{Name: proto.String(c.paths[0]), InsertionPoint: proto.String("tail"), Content: proto.String(insertionContent(c))},
				}}
				if err := w.AddResponse(ctx, second, d.dir); err != nil {
					return err
				}
				return w.Close()
			}},
	)
}

// insertionTarget is what the first plugin generates for p: the file's content, an insertion point and,
// in shape 1, a line of 70 000 bytes below it.
func insertionTarget(c *caseData, p string) string {
	body := strings.TrimRight(string(c.files[p]), "\n")
	if strings.Contains(body, "@@protoc_insertion_point(tail)") {
		body = "x"
	}
	out := body + "\n// @@protoc_insertion_point(tail)\n"
	if c.shape == 1 && p == c.paths[0] {
		out += "const blob = \"" + strings.Repeat("A", 70000) + "\"\n"
	}
	return out + "// end of " + p + "\n"
}

// insertionContent is what the second plugin inserts: two short lines and, in shape 2, a line of 70 000
// bytes between them.
func insertionContent(c *caseData) string {
	if c.shape == 2 {
		return "inserted first\nconst table = \"" + strings.Repeat("B", 70000) + "\"\ninserted last\n"
	}
	return "inserted first\ninserted last\n"
}

// writePluginArchive: generated files of two plugins (the second inserts into the first one's
// file) staged in memory and written as one archive when the response writer is closed.
func writePluginArchive(ctx context.Context, c *caseData, d *dest, name string) error {
	if dec := c.sim.Yield(ctx, "start", "archive", sched.NoFault()); dec.Dead {
		return sched.ErrCrashed
	}
	w := bufprotopluginos.NewResponseWriter(slogext.NopLogger, d.provider, bufprotopluginos.ResponseWriterWithCreateOutDirIfNotExists())
	resp := &pluginpb.CodeGeneratorResponse{}
	for _, p := range c.paths {
		resp.File = append(resp.File, &pluginpb.CodeGeneratorResponse_File{Name: proto.String(p), Content: proto.String(string(c.files[p]) + "\n// @@protoc_insertion_point(tail)\n")})
	}
	out := filepath.Join(d.dir, filepath.FromSlash(name))
	if err := os.MkdirAll(filepath.Dir(out), 0o755); err != nil {
		return fmt.Errorf("harness: %w", err)
	}
	if err := w.AddResponse(ctx, resp, out); err != nil {
		return err
	}
	second := &pluginpb.CodeGeneratorResponse{File: []*pluginpb.CodeGeneratorResponse_File{
		{Name: proto.String(c.paths[0]), InsertionPoint: proto.String("tail"), Content: proto.String("inserted")},
		{Name: proto.String("second/extra.txt"), Content: proto.String("from the second plugin")},
	}}
	if err := w.AddResponse(ctx, second, out); err != nil {
		return err
	}
	return w.Close()
}

// runExport runs the real `buf export` command in-process: it reads the workspace from disk, builds
// the image (unless imports are excluded) and writes the files into the output directory.
func runExport(ctx context.Context, c *caseData, d *dest, extra ...string) error {
	// (the first scheduling point makes this task the one that "runs now" for the raw hooks)
	if dec := c.sim.Yield(ctx, "start", "cli", sched.NoFault()); dec.Dead {
		return sched.ErrCrashed
	}
	var stdout, stderr bytes.Buffer
	env := map[string]string{"HOME": filepath.Join(c.srcDir, "..", "home"), "BUF_CACHE_DIR": filepath.Join(c.srcDir, "..", "cache"), "PATH": ""}
	args := append([]string{"buf", "export", c.srcDir, "-o", d.dir}, extra...)
	container := app.NewContainer(env, strings.NewReader(""), &stdout, &stderr, args...)
	err := appcmd.Run(ctx, container, bufcli.NewRootCommand("buf"))
	if err == nil && stderr.Len() > 0 && strings.Contains(stderr.String(), "Failure") {
		return fmt.Errorf("stderr: %s", stderr.String())
	}
	return err
}

func wktContent(path string) string {
	data, err := storage.ReadPath(context.Background(), datawkt.ReadBucket, path)
	if err != nil {
		panic(err)
	}
	return string(data)
}

func putModules(ctx context.Context, c *caseData, d *dest, tar bool) error {
	var idx []int
	for i := range c.u.Modules {
		idx = append(idx, i)
	}
	datas, err := c.u.Provider.GetModuleDatasForModuleKeys(ctx, c.u.Keys(idx))
	if err != nil {
		return fmt.Errorf("harness: %w", err)
	}
	var opts []bufmodulestore.ModuleDataStoreOption
	if tar {
		opts = append(opts, bufmodulestore.ModuleDataStoreWithTar())
	}
	store := bufmodulestore.NewModuleDataStore(slogext.NopLogger, d.bucket, filelock.NewNopLocker(), opts...)
	return store.PutModuleDatas(ctx, datas)
}

// simProvider is a storageos.Provider whose buckets are instrumented.
type simProvider struct {
	r *runner
}

func (p *simProvider) NewReadWriteBucket(rootPath string, options ...storageos.ReadWriteBucketOption) (storage.ReadWriteBucket, error) {
	raw, err := storageos.NewProvider().NewReadWriteBucket(rootPath, options...)
	if err != nil {
		return nil, err
	}
	return &simfs.Bucket{S: p.r.s, U: raw, Name: "dst", Hooks: p.r.hooks}, nil
}

// faultWriter is an io.Writer whose every Write is a scheduling and fault point.
type faultWriter struct {
	s   *sched.Sim
	ctx context.Context
	buf bytes.Buffer
}

func (w *faultWriter) Write(p []byte) (int, error) {
	d := w.s.Yield(w.ctx, "write", "dst:<stream>", sched.WithSize(len(p)))
	if d.Dead {
		return 0, sched.ErrCrashed
	}
	switch d.Fault {
	case "write-err":
		w.s.Fired(d.Fault)
		return 0, d.Err("write stream")
	case "short-write":
		w.s.Fired(d.Fault)
		k := 0
		if len(p) > 0 {
			k = d.Arg % len(p)
		}
		w.buf.Write(p[:k])
		return k, d.Err("write stream")
	}
	return w.buf.Write(p)
}

type pos struct {
	key  string // PosKey
	kind string // op kind
	size int
}

// positionPolicy records the destination operations it sees and injects the
// configured faults at the configured positions.
type positionPolicy struct {
	inject map[string]sched.Decision // PosKey -> decision
	seen   []pos
	// cancelAt: cancel the operation's context when this position is about to run
	cancelAt string
	cancel   context.CancelFunc
}

func (p *positionPolicy) Decide(s *sched.Sim, op sched.Op) sched.Decision {
	if !strings.HasPrefix(op.Path, "dst:") && !(strings.HasPrefix(op.Path, "src:") && (op.Kind == "get" || op.Kind == "read")) {
		return sched.Decision{}
	}
	k := op.PosKey()
	p.seen = append(p.seen, pos{key: k, kind: op.Kind, size: op.Size})
	if p.cancelAt == k && p.cancel != nil {
		p.cancel()
		s.Fired("cancel")
	}
	if d, ok := p.inject[k]; ok {
		return d
	}
	return sched.Decision{}
}

type runner struct {
	s     *sched.Sim
	hooks *simfs.Hooks
	env   *engine.Env
	tp    *tape.Tape
	n     int
	// lastDest: the destination of the last execution
	lastDest *dest
}

func (r *runner) newDest(c *caseData) *dest {
	r.n++
	d := &dest{}
	if c.wp.stream {
		d.writer = &faultWriter{s: r.s}
		return d
	}
	kind := c.dstKind
	if c.wp.osOnly {
		kind = "os"
	}
	switch kind {
	case "mem":
		raw := storagemem.NewReadWriteBucket()
		d.raw = raw
		d.bucket = &simfs.Bucket{S: r.s, U: raw, Name: "dst"}
	case "os", "osmap":
		dir := filepath.Join(r.env.Scratch, fmt.Sprintf("d%d", r.n), "root")
		if err := os.MkdirAll(dir, 0o755); err != nil {
			panic(err)
		}
		d.dir = dir
		raw, err := storageos.NewProvider().NewReadWriteBucket(dir)
		if err != nil {
			panic(err)
		}
		d.raw = raw
		sb := &simfs.Bucket{S: r.s, U: raw, Name: "dst", Hooks: r.hooks}
		d.bucket = sb
		d.provider = &simProvider{r: r}
		r.hooks.RawRoot = ""
		if c.wp.cli || c.wp.rawDst {
			// nobody hands this code a bucket: faults are injected from the hooks below storageos
			r.hooks.RawRoot, r.hooks.RawName = dir, "dst"
		}
		if kind == "osmap" {
			// the real prefix-mapping code sits between the write path and the faults
			d.raw = storage.MapReadWriteBucket(raw, storage.MapOnPrefix("sub/dir"))
			d.bucket = storage.MapReadWriteBucket(sb, storage.MapOnPrefix("sub/dir"))
		}
		if c.unwrapped {
			d.bucket = d.raw
			d.provider = storageos.NewProvider()
			r.hooks.RawRoot = ""
		}
	}
	return d
}

// exec runs the case's write path once as a simulated process.
func (r *runner) exec(c *caseData, fifo bool, inject map[string]sched.Decision) (error, map[string]string, *positionPolicy) {
	return r.execCancel(c, fifo, inject, "")
}

// execCancel is exec with the context cancelled when the given destination position is reached.
func (r *runner) execCancel(c *caseData, fifo bool, inject map[string]sched.Decision, cancelAt string) (error, map[string]string, *positionPolicy) {
	d := r.newDest(c)
	r.lastDest = d
	if c.preDest != nil {
		c.preDest(d)
	}
	pol := &positionPolicy{inject: inject, cancelAt: cancelAt}
	r.s.Policy = pol
	r.s.FIFO = fifo
	r.s.ResetEpoch()
	proc := r.s.Proc("w")
	var werr error
	r.s.Spawn(proc, func(ctx context.Context) {
		if cancelAt != "" {
			var cancel context.CancelFunc
			ctx, cancel = context.WithCancel(ctx)
			defer cancel()
			pol.cancel = cancel
		}
		if d.writer != nil {
			d.writer.ctx = ctx
		}
		werr = c.wp.run(ctx, c, d)
	})
	r.s.Run()
	var state map[string]string
	if d.writer != nil {
		state = map[string]string{"<stream>": d.writer.buf.String()}
	} else {
		var err error
		state, err = simfs.Snapshot(context.Background(), d.raw)
		if err != nil {
			panic(fmt.Sprintf("harness: snapshot: %v", err))
		}
	}
	if d.dir != "" {
		r.checkAncestors(c, d, werr)
		os.RemoveAll(filepath.Dir(d.dir))
	}
	return werr, state, pol
}

// execPre runs the write path with a cancellable context; pre = cancelled before it starts.
func (r *runner) execPre(c *caseData, pre bool, cancelOut *context.CancelFunc) (error, map[string]string) {
	d := r.newDest(c)
	r.s.Policy = &positionPolicy{}
	r.s.FIFO = false
	r.s.ResetEpoch()
	proc := r.s.Proc("w")
	var werr error
	r.s.Spawn(proc, func(ctx context.Context) {
		ctx, cancel := context.WithCancel(ctx)
		defer cancel()
		*cancelOut = cancel
		if pre {
			cancel()
			r.s.Fired("cancel")
		}
		if d.writer != nil {
			d.writer.ctx = ctx
		}
		werr = c.wp.run(ctx, c, d)
	})
	r.s.Run()
	*cancelOut = nil
	var state map[string]string
	if d.writer != nil {
		state = map[string]string{"<stream>": d.writer.buf.String()}
	} else {
		var err error
		state, err = simfs.Snapshot(context.Background(), d.raw)
		if err != nil {
			panic(fmt.Sprintf("harness: snapshot: %v", err))
		}
	}
	if d.dir != "" {
		r.checkAncestors(c, d, werr)
		os.RemoveAll(filepath.Dir(d.dir))
	}
	return werr, state
}

// checkAncestors: whatever a write path did - succeed, fail half way, clean up after itself - the
// directory that holds the bucket's root (it holds nothing else) is still there: cleaning up after a
// failed write must stop at the root (C13: nothing outside the root is deleted).
func (r *runner) checkAncestors(c *caseData, d *dest, werr error) {
	if _, err := os.Lstat(filepath.Dir(d.dir)); err != nil {
		outcome := "succeeded"
		if werr != nil {
			outcome = "failed"
		}
		r.s.Violate("nothing-outside-root-touched", "C13|nothing-outside-root-touched|write-path-removed-parent-of-root|"+c.wp.name,
			"%s (dst=%s atomic=%v) %s and the directory that held the bucket's root directory is gone", c.wp.name, c.dstKind, c.atomic, outcome)
	} else {
		r.s.Probe("root-parent-survived-write-path")
	}
}

func diffState(want, got map[string]string) string {
	var out []string
	for _, k := range simfs.SortedKeys(want) {
		g, ok := got[k]
		if !ok {
			out = append(out, "missing "+k)
		} else if g != want[k] {
			out = append(out, fmt.Sprintf("differs %s (want %d bytes, got %d)", k, len(want[k]), len(g)))
		}
	}
	for _, k := range simfs.SortedKeys(got) {
		if _, ok := want[k]; !ok {
			out = append(out, "extra "+k)
		}
	}
	if len(out) > 4 {
		out = append(out[:4], "...")
	}
	return strings.Join(out, "; ")
}

// faultKindsAt: the fault kinds applicable at a recorded position - a source position can fail to open or
// to deliver its next chunk, a destination position as faultKindsFor says.
func faultKindsAt(c *caseData, p pos) []string {
	if strings.Contains(p.key, "|src:") {
		switch p.kind {
		case "get":
			return []string{"get-err"}
		case "read":
			return []string{"read-err"}
		}
		return nil
	}
	return faultKindsFor(c, p.kind)
}

func faultKindsFor(c *caseData, kind string) []string {
	if (c.wp.cli || c.wp.rawDst) && kind == "close" && !c.atomic {
		return []string{"close-err"}
	}
	switch kind {
	case "put":
		return []string{"put-err"}
	case "write":
		return []string{"write-err", "short-write"}
	case "close":
		if c.atomic && c.dstKind != "mem" && !c.wp.stream {
			return []string{"close-err", "rename-err"}
		}
		return []string{"close-err"}
	}
	return nil
}

// Run is one simulated case: a reference execution and the enumeration of
// every (position, fault kind) of the destination's operations.
// Run executes one case; run on behalf of C13 only the containment oracle counts, otherwise it does not.
func Run(tp *tape.Tape, env *engine.Env) *engine.Outcome {
	out := run(tp, env)
	kept := out.Violations[:0]
	for _, v := range out.Violations {
		if strings.HasPrefix(v.Sig, "C13|") == (env.Property == "C13") || strings.HasPrefix(v.Sig, "harness|") {
			kept = append(kept, v)
		} else {
			if out.Counters == nil {
				out.Counters = map[string]int{}
			}
			out.Counters["other-property:"+v.Oracle]++
		}
	}
	out.Violations = kept
	return out
}

func run(tp *tape.Tape, env *engine.Env) *engine.Outcome {
	s := sched.New(tp)
	s.KeepTrace = env.KeepTrace
	s.Progress = env.Progress
	s.MaxSteps = 200000
	hooks := simfs.NewHooks(s)
	verifhook.SetHandler(hooks)
	defer verifhook.SetHandler(nil)
	r := &runner{s: s, hooks: hooks, env: env, tp: tp}

	if env.Property == "C15B" || tp.Draw("part", 4) == 3 {
		// Part B shares run indices with part A (one in four runs).
		out := runAtomic(r)
		return out
	}

	c := &caseData{sim: s}
	c.wp = tape.Pick(tp, "writepath", writePaths)
	if c.wp.slow && env.Tier != "thorough" && tp.Draw("slowpath", 6) != 5 {
		// (a slow path gets a sixth of its share in the quick tier)
		c.wp = tape.Pick(tp, "writepath", writePaths[:8])
	}
	if want := os.Getenv("VERIF_WRITEPATH"); want != "" {
		// debugging aid: force one write path
		for _, wp := range writePaths {
			if wp.name == want {
				c.wp = wp
			}
		}
	}
	c.files = gen.Files(tp, 1, 6, true)
	many := 0
	if !c.wp.cli && !c.wp.modules && tp.Draw("manyfiles", 40) == 39 {
		// now and then far more objects than any batch, buffer or worker pool inside the write path holds at once
		many = tape.Pick(tp, "manycount", []int{1025, 1100, 1500, 2049})
		for i := 0; i < many; i++ {
			c.files[fmt.Sprintf("many/d%02d/f%04d.txt", i%7, i)] = []byte(fmt.Sprintf("%d\n", i))
		}
		s.MaxSteps = 4000000
		s.Probe("more-than-a-thousand-objects")
	}
	c.paths = gen.SortedPaths(c.files)
	c.atomic = tp.Draw("atomic", 2) == 1
	c.dstKind = tape.Pick(tp, "dst", []string{"mem", "os", "osmap"})
	c.par = tape.Pick(tp, "par", []int{8, 1, 2, 3})
	thread.SetParallelism(c.par)
	if c.wp.modules {
		u, err := modgen.New(tp, modgen.Options{MaxModules: 3, MaxFiles: 4, AllowB4: true, Extras: true})
		if err != nil {
			panic(err)
		}
		c.u = u
	}
	if c.wp.osOnly {
		c.dstKind = "os"
	}
	if !c.wp.cli && !c.wp.modules && tp.Draw("srcdisk", 3) == 2 {
		c.srcDir = filepath.Join(env.Scratch, "srcdisk")
		for p, content := range c.files {
			full := filepath.Join(c.srcDir, filepath.FromSlash(p))
			if err := os.MkdirAll(filepath.Dir(full), 0o755); err != nil {
				panic(err)
			}
			if err := os.WriteFile(full, content, 0o644); err != nil {
				panic(err)
			}
		}
		defer os.RemoveAll(c.srcDir)
	}
	if c.wp.cli {
		c.atomic = false
		c.ws = wsgen.New(tp, wsgen.Options{MaxModules: 2, MaxFiles: 5, SupplyWKT: wktContent, ForceSupplyWKT: tp.Draw("forcewkt", 2) == 1, NoEditions: true})
		c.srcDir = filepath.Join(env.Scratch, "cli", "src")
		var y strings.Builder
		y.WriteString("version: v2\nmodules:\n")
		for _, mod := range c.ws.Modules {
			fmt.Fprintf(&y, "  - path: mod%d\n", mod.Index)
			for p, content := range mod.ModuleFiles() {
				full := filepath.Join(c.srcDir, fmt.Sprintf("mod%d", mod.Index), filepath.FromSlash(p))
				if err := os.MkdirAll(filepath.Dir(full), 0o755); err != nil {
					panic(err)
				}
				if err := os.WriteFile(full, content, 0o644); err != nil {
					panic(err)
				}
			}
		}
		if err := os.WriteFile(filepath.Join(c.srcDir, "buf.yaml"), []byte(y.String()), 0o644); err != nil {
			panic(err)
		}
		defer os.RemoveAll(filepath.Join(env.Scratch, "cli"))
	}
	var tb, zb bytes.Buffer
	if err := storagearchive.Tar(context.Background(), srcBucket(c), &tb); err != nil {
		panic(err)
	}
	if err := storagearchive.Zip(context.Background(), srcBucket(c), &zb, true); err != nil {
		panic(err)
	}
	c.tarData, c.zipData = tb.Bytes(), zb.Bytes()
	if many > 0 {
		s.Event("case wp=%s dst=%s atomic=%v par=%d files=%d (%d of them many/dNN/fNNNN.txt)", c.wp.name, c.dstKind, c.atomic, c.par, len(c.paths), many)
	} else {
		s.Event("case wp=%s dst=%s atomic=%v par=%d files=%v", c.wp.name, c.dstKind, c.atomic, c.par, c.paths)
	}

	if !c.wp.cli && tp.Draw("srcfaults", 3) == 2 {
		// the READ side can fail too: opening a source object, or its k-th chunk while the destination
		// object is half written
		c.srcWrap = func(b storage.ReadBucket) storage.ReadBucket {
			return &simfs.Bucket{S: s, U: simfs.ReadOnly(b), Name: "src", YieldReads: true}
		}
		s.Probe("source-side-fault-positions")
	}
	counters := map[string]int{}
	if c.wp.expect != nil {
		c.shape = tp.Draw("shape", 3)
	}
	refErr, E, refPol := r.exec(c, true, nil)
	if refErr != nil && c.wp.mayReject != nil && c.wp.mayReject(c) {
		// the input was refused outright, with an error: nothing was promised, nothing to enumerate
		s.Probe("boundary-shape-rejected-with-an-error")
		s.Event("fault-free execution refused shape %d: error", c.shape)
		s.Drain()
		return engine.FromSim(s)
	}
	if refErr == nil && c.wp.expect != nil {
		want := c.wp.expect(c)
		got := map[string]string{}
		for k, v := range E {
			got[k] = strings.TrimRight(v, "\n")
		}
		if d := diffState(want, got); d != "" {
			s.Violate("success-implies-complete", fmt.Sprintf("C15|success-incomplete|%s|fault-free|shape%d", c.wp.name, c.shape),
				"%s (dst=%s) reported success without any failure, but its output is not what the responses say (shape %d: 0 = ordinary, 1 = a 70 000 byte line below the insertion point, 2 = a 70 000 byte line in the inserted content): %s", c.wp.name, c.dstKind, c.shape, d)
		}
		s.Probe("output-compared-with-independent-expectation")
	}
	if refErr != nil {
		s.Violate("harness-reference", "harness|reference-failed|"+c.wp.name, "fault-free execution failed: %v", refErr)
		s.Drain()
		return engine.FromSim(s)
	}
	// enumerate every position x fault kind
	type inj struct {
		p    pos
		kind string
	}
	var all []inj
	for _, p := range refPol.seen {
		for _, k := range faultKindsAt(c, p) {
			all = append(all, inj{p, k})
		}
	}
	counters["positions"] = len(refPol.seen)
	limit := 60
	if env.Tier == "thorough" {
		limit = 400
	}
	if many > 0 || c.wp.slow {
		limit = limit / 5
	}
	if len(all) > limit {
		perm := tp.Perm("subset", len(all))
		sel := make([]inj, 0, limit)
		for _, i := range perm[:limit] {
			sel = append(sel, all[i])
		}
		all = sel
	}
	states := map[string][]string{}
	for _, in := range all {
		dec := sched.Decision{Fault: in.kind}
		if in.kind == "short-write" && in.p.size > 1 {
			dec.Arg = 1 + tp.Draw("short", in.p.size-1)
		}
		inject := map[string]sched.Decision{in.p.key: dec}
		pairOdds := 8
		if env.Tier == "thorough" {
			pairOdds = 3
		}
		if len(refPol.seen) > 1 && tp.Draw("pair", pairOdds) == 1 {
			// a second fault somewhere else
			q := refPol.seen[tp.Draw("pairpos", len(refPol.seen))]
			if ks := faultKindsAt(c, q); len(ks) > 0 && q.key != in.p.key {
				inject[q.key] = sched.Decision{Fault: ks[tp.Draw("pairkind", len(ks))]}
			}
		}
		before := totalFired(s)
		err, state, _ := r.exec(c, false, inject)
		fired := totalFired(s) - before
		counters["fault_executions"]++
		s.Event("inject %s@%s fired=%d err=%v", in.kind, in.p.key, fired, err != nil)
		site := c.wp.name + "|" + in.kind + "@" + in.p.kind
		if fired > 0 && err == nil {
			s.Violate("write-failure-reported", "C15|unreported|"+site,
				"%s (dst=%s atomic=%v): injected %s at %s fired but the operation returned nil", c.wp.name, c.dstKind, c.atomic, in.kind, in.p.key)
		}
		if fired > 0 && err != nil {
			for _, k := range c.wp.atomicFiles {
				// (a memory bucket has no notion of a failed put: what was written is there after Close)
				if v, ok := state[k]; ok && c.dstKind != "mem" && v != E[k] && v != c.oldFiles[k] {
					s.Violate("atomic-put-all-or-nothing", "C15|atomic-failed-put-partial|"+site,
						"%s (dst=%s) failed after %s at %s (%v) and left %d bytes in %s that are neither what it held before (%d bytes) nor the complete new content (%d bytes)", c.wp.name, c.dstKind, in.kind, in.p.key, err, len(v), k, len(c.oldFiles[k]), len(E[k]))
				}
			}
		}
		if c.wp.heals && err != nil && r.lastDest != nil && r.lastDest.healed {
			if d := diffState(E, state); d != "" {
				s.Violate("success-implies-complete", "C15|success-incomplete|"+c.wp.name+"|later-run|"+in.kind,
					"%s (dst=%s): after an invocation that failed with %s at %s, the NEXT invocation reported success, but the cache differs from what it is supposed to hold: %s", c.wp.name, c.dstKind, in.kind, in.p.key, d)
			}
			s.Probe("cache-healed-by-later-run")
		}
		if err == nil {
			if d := diffState(E, state); d != "" {
				s.Violate("success-implies-complete", "C15|success-incomplete|"+site,
					"%s (dst=%s atomic=%v) returned nil after %s at %s but output differs: %s", c.wp.name, c.dstKind, c.atomic, in.kind, in.p.key, d)
			}
		}
		if fired > 0 && err != nil {
			// a failed atomic put leaves no new object behind - also not under its temporary name
			for _, k := range simfs.SortedKeys(state) {
				if simfs.IsTemp(k) {
					s.Violate("failed-put-leaves-nothing", "C15|atomic-failed-put-residue|"+site,
						"%s (dst=%s atomic=%v) failed after %s at %s (%v) but left %s behind", c.wp.name, c.dstKind, c.atomic, in.kind, in.p.key, err, k)
					break
				}
			}
		}
		if fired > 0 {
			states["fault-site"] = append(states["fault-site"], site+"|"+c.dstKind)
		}
	}
	// a REAL failure of the operating system, below every hook: one destination file is a link to
	// /dev/full, so whenever the code really writes its bytes - at Write or at a flush hidden in Close -
	// write(2) fails with ENOSPC. A non-atomic put of that file must make the operation fail.
	// (write paths that always put atomically replace the link by a complete file: a success there is right)
	alwaysAtomic := strings.HasPrefix(c.wp.name, "PutBuf") || c.wp.name == "PutFileSetToBucket" || len(c.wp.atomicFiles) > 0
	if (c.dstKind == "os" || c.dstKind == "osmap") && !c.atomic && !alwaysAtomic && !c.wp.modules && !c.wp.cli && !c.wp.rawDst && !c.wp.stream {
		var victims []string
		for _, k := range simfs.SortedKeys(E) {
			if len(E[k]) > 0 && !simfs.IsTemp(k) {
				victims = append(victims, k)
			}
		}
		if _, err := os.Stat("/dev/full"); err == nil && len(victims) > 0 {
			victim := victims[tp.Draw("devfull", len(victims))]
			c.preDest = func(d *dest) {
				full := filepath.Join(d.dir, filepath.FromSlash(victim))
				if c.dstKind == "osmap" {
					full = filepath.Join(d.dir, "sub", "dir", filepath.FromSlash(victim))
				}
				if err := os.MkdirAll(filepath.Dir(full), 0o755); err != nil {
					panic(err)
				}
				if err := os.Symlink("/dev/full", full); err != nil {
					panic(err)
				}
			}
			err, _, _ := r.exec(c, false, nil)
			c.preDest = nil
			counters["device_full_executions"]++
			s.Fired("device-full")
			s.Event("device full at %s err=%v", victim, err != nil)
			if err == nil {
				s.Violate("write-failure-reported", "C15|unreported|"+c.wp.name+"|device-full",
					"%s (dst=%s): every write(2) to %s fails with ENOSPC (the file is a link to /dev/full) but the operation returned nil", c.wp.name, c.dstKind, victim)
			}
		}
	}
	// Another REAL failure below every hook, and one that also reaches the temporary file of an atomic put:
	// the process's file size limit (RLIMIT_FSIZE, SIGXFSZ ignored) is lowered below the size of one of the
	// files to write, so write(2) / copy_file_range(2) fail with EFBIG in the middle of that file. The write
	// path gets the real disk bucket without the simulator's wrapper around it. The operation must fail; an
	// atomic put must leave the old content (or nothing), never a prefix of the new one, and no temp file.
	if (c.dstKind == "os" || c.dstKind == "osmap") && !c.wp.modules && !c.wp.cli && !c.wp.rawDst && !c.wp.stream {
		var victims []string
		for _, k := range simfs.SortedKeys(E) {
			if len(E[k]) > 1 && !simfs.IsTemp(k) {
				victims = append(victims, k)
			}
		}
		if len(victims) > 0 {
			victim := victims[tp.Draw("fsizevictim", len(victims))]
			limit := 1 + tp.Draw("fsizelimit", len(E[victim])-1)
			old := "the previous content of " + victim
			havOld := tp.Draw("fsizeold", 2) == 1
			var saved syscall.Rlimit
			c.unwrapped = true
			c.preDest = func(d *dest) {
				if havOld {
					full := filepath.Join(d.dir, filepath.FromSlash(victim))
					if c.dstKind == "osmap" {
						full = filepath.Join(d.dir, "sub", "dir", filepath.FromSlash(victim))
					}
					if err := os.MkdirAll(filepath.Dir(full), 0o755); err != nil {
						panic(err)
					}
					if err := os.WriteFile(full, []byte(old), 0o644); err != nil {
						panic(err)
					}
				}
				if err := syscall.Getrlimit(syscall.RLIMIT_FSIZE, &saved); err != nil {
					panic(err)
				}
				if err := syscall.Setrlimit(syscall.RLIMIT_FSIZE, &syscall.Rlimit{Cur: uint64(limit), Max: saved.Max}); err != nil {
					panic(err)
				}
			}
			var dstDir string
			hooks.AtomicFinals = map[string]bool{}
			inner := c.preDest
			c.preDest = func(d *dest) { dstDir = d.dir; inner(d) }
			err, state, _ := r.exec(c, false, nil)
			if rerr := syscall.Setrlimit(syscall.RLIMIT_FSIZE, &saved); rerr != nil {
				panic(rerr)
			}
			c.preDest, c.unwrapped = nil, false
			atomicFinals := hooks.AtomicFinals
			hooks.AtomicFinals = nil
			// was the object at this bucket path created through a temporary file?
			putAtomically := func(k string) bool {
				full := filepath.Join(dstDir, filepath.FromSlash(k))
				if c.dstKind == "osmap" {
					full = filepath.Join(dstDir, "sub", "dir", filepath.FromSlash(k))
				}
				return atomicFinals[full]
			}
			counters["file_size_limit_executions"]++
			s.Fired("file-size-limit")
			s.Event("file size limit %d at %s (old content %v) err=%v", limit, victim, havOld, err != nil)
			if err == nil {
				s.Violate("write-failure-reported", "C15|unreported|"+c.wp.name+"|file-size-limit",
					"%s (dst=%s atomic=%v): no file may grow beyond %d bytes (RLIMIT_FSIZE), %s has %d, but the operation returned nil", c.wp.name, c.dstKind, c.atomic, limit, victim, len(E[victim]))
			} else {
				if putAtomically(victim) {
					s.Probe("atomic-put-hit-file-size-limit")
				}
				for _, k := range simfs.SortedKeys(state) {
					if simfs.IsTemp(k) {
						s.Violate("failed-put-leaves-nothing", "C15|atomic-failed-put-residue|"+c.wp.name+"|file-size-limit",
							"%s (dst=%s) failed at the file size limit (%v) but left %s behind", c.wp.name, c.dstKind, err, k)
					} else if putAtomically(k) && state[k] != E[k] && !(havOld && k == victim && state[k] == old) {

						s.Violate("atomic-put-all-or-nothing", "C15|atomic-failed-put-partial|"+c.wp.name+"|file-size-limit",
							"%s (dst=%s): the atomic put of %s (%d bytes) failed at the file size limit %d (%v) and left %d bytes that are neither the previous nor the complete new content", c.wp.name, c.dstKind, k, len(E[k]), limit, err, len(state[k]))
					}
				}
			}
		}
	}
	// cancellation in the middle of the operation: success may only be reported if everything is there
	ncancel := 3
	if c.wp.slow {
		ncancel = 1
	}
	if len(refPol.seen) < ncancel {
		ncancel = len(refPol.seen)
	}
	for k := 0; k < ncancel; k++ {
		p := refPol.seen[tp.Draw("cancelpos", len(refPol.seen))]
		// sometimes together with a failing write somewhere else: two reasons to fail at once
		var inject map[string]sched.Decision
		if tp.Draw("cancelplusfault", 2) == 1 {
			q := refPol.seen[tp.Draw("cancelfaultpos", len(refPol.seen))]
			if ks := faultKindsAt(c, q); len(ks) > 0 && q.key != p.key {
				inject = map[string]sched.Decision{q.key: {Fault: ks[tp.Draw("cancelfaultkind", len(ks))]}}
			}
		}
		before := totalFired(s)
		err, state, _ := r.execCancel(c, false, inject, p.key)
		counters["cancel_executions"]++
		s.Event("cancel@%s err=%v", p.key, err != nil)
		if inject != nil && totalFired(s)-before > 1 && err == nil {
			s.Violate("write-failure-reported", "C15|unreported|"+c.wp.name+"|fault+cancel",
				"%s (dst=%s atomic=%v): a write fault fired and the context was cancelled at %s, but the operation returned nil", c.wp.name, c.dstKind, c.atomic, p.key)
		}
		if err == nil {
			if d := diffState(E, state); d != "" {
				s.Violate("success-implies-complete", "C15|success-incomplete|"+c.wp.name+"|cancel@"+p.kind,
					"%s (dst=%s atomic=%v) returned nil after its context was cancelled at %s but output differs: %s", c.wp.name, c.dstKind, c.atomic, p.key, d)
			}
		}
	}
	// cancellation at an arbitrary scheduling step - also before the operation starts (step 0) and
	// between the dispatch of a parallel job and its first action (job start / end are steps here)
	for k := 0; k < 3 && !(c.wp.slow && k > 0); k++ {
		step := tp.Draw("cancelstep", 2*len(refPol.seen)+3)
		s.YieldJobs = true
		n := 0
		var cancelNow context.CancelFunc
		s.BeforeRelease = func(op sched.Op) {
			n++
			if n == step && cancelNow != nil {
				cancelNow()
				s.Fired("cancel")
			}
		}
		err, state := r.execPre(c, step == 0, &cancelNow)
		s.BeforeRelease = nil
		s.YieldJobs = false
		counters["cancel_executions"]++
		s.Event("cancel@step%d err=%v", step, err != nil)
		if err == nil {
			if d := diffState(E, state); d != "" {
				s.Violate("success-implies-complete", "C15|success-incomplete|"+c.wp.name+"|cancel@step",
					"%s (dst=%s atomic=%v par=%d) returned nil after its context was cancelled at scheduling step %d but output differs: %s", c.wp.name, c.dstKind, c.atomic, c.par, step, d)
			}
		}
	}
	s.Drain()
	out := engine.FromSim(s)
	out.Counters = counters
	out.Distinct = states
	described := gen.Describe(c.files)
	if many > 0 {
		for k := range described {
			if strings.HasPrefix(k, "many/") {
				delete(described, k)
			}
		}
		described["many/dNN/fNNNN.txt (count)"] = many
	}
	out.Sample = map[string]any{
		"part": "A", "write_path": c.wp.name, "dst": c.dstKind, "atomic": c.atomic, "parallelism": c.par,
		"files": described, "dst_positions": len(refPol.seen), "fault_executions": counters["fault_executions"],
	}
	return out
}

func totalFired(s *sched.Sim) int {
	n := 0
	for _, v := range s.Faults {
		n += v
	}
	return n
}

var _ = errors.Is
var _ = io.EOF
var _ = sort.Strings
