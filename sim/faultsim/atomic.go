package faultsim

import (
	"context"
	"fmt"
	"io"
	"os"
	"path/filepath"
	"strings"

	"github.com/bufbuild/buf/private/pkg/storage"
	"github.com/bufbuild/buf/private/pkg/storage/storagemem"
	"github.com/bufbuild/buf/private/pkg/storage/storageos"
	"github.com/bufbuild/verif/engine"
	"github.com/bufbuild/verif/gen"
	"github.com/bufbuild/verif/sched"
	"github.com/bufbuild/verif/simfs"
	"github.com/bufbuild/verif/tape"
)

// atomicPolicy injects at most a few faults, drawn from the tape, into the
// destination operations of writer processes.
type atomicPolicy struct {
	rate      int // 0 = none; else one in rate
	crashRate int
	kinds     map[string][]string
	budget    int
	srcRead   bool
}

func (p *atomicPolicy) Decide(s *sched.Sim, op sched.Op) sched.Decision {
	if p.srcRead {
		// the source-read variant: the only failure is the k-th read of the object being copied
		if strings.HasPrefix(op.Proc, "w") && op.Kind == "read" && strings.HasPrefix(op.Path, "src:") && p.budget > 0 && s.Tape.Draw("srcfault?", 3) == 1 {
			p.budget--
			return sched.Decision{Fault: "read-err"}
		}
		return sched.Decision{}
	}
	if !strings.HasPrefix(op.Proc, "w") || !strings.HasPrefix(op.Path, "dst:") {
		return sched.Decision{}
	}
	if p.crashRate > 0 && s.Tape.Draw("crash?", p.crashRate) == 1 {
		return sched.Decision{Fault: "proc-crash"}
	}
	if p.rate == 0 || p.budget == 0 {
		return sched.Decision{}
	}
	ks := p.kinds[op.Kind]
	if len(ks) == 0 {
		return sched.Decision{}
	}
	v := s.Tape.Draw("fault?", p.rate)
	if v == 0 || v > len(ks) {
		return sched.Decision{}
	}
	p.budget--
	d := sched.Decision{Fault: ks[v-1]}
	if d.Fault == "short-write" && op.Size > 1 {
		d.Arg = 1 + s.Tape.Draw("short", op.Size-1)
	}
	return d
}

// runAtomic is part B: atomic puts on a real directory, observed at every
// scheduling point (= every possible kill point) and by concurrent readers.
func runAtomic(r *runner) *engine.Outcome {
	s, tp := r.s, r.tp
	s.MaxSteps = 5000
	backend := tape.Pick(tp, "b.backend", []string{"os", "osmap", "os", "mem", "oslimit", "oslink"})
	// violations seen through a LimitWriteBucket view carry their own signature namespace
	ns := "C15|"
	if backend == "oslimit" {
		ns = "C15|limit-view|"
	}
	hasOld := tp.Draw("b.hasold", 3) != 0
	nWriters := 1 + tp.Draw("b.nwriters", 2)
	nReaders := tp.Draw("b.nreaders", 3)
	method := tape.Pick(tp, "b.method", []string{"PutPath", "ForWriteObject", "Copy"})
	target := tape.Pick(tp, "b.target", []string{"p.txt", "sub/p.txt", "a/b/c/p.proto"})
	old := gen.Content(tp, "old", false)
	if len(old) == 0 {
		old = []byte("old")
	}
	news := make([][]byte, nWriters)
	chunks := make([]int, nWriters)
	for i := range news {
		news[i] = gen.Content(tp, fmt.Sprintf("new%d", i), true)
		if len(news[i]) == 0 {
			news[i] = []byte(fmt.Sprintf("new%d", i))
		}
		chunks[i] = 1 + tp.Draw("b.chunks", 4)
	}
	pol := &atomicPolicy{budget: 1 + tp.Draw("b.budget", 2)}
	switch tp.Draw("b.faultmode", 4) {
	case 1, 2:
		pol.rate = 6
	case 3:
		pol.crashRate = 12
	}
	if backend == "mem" {
		// memory writes cannot fail in reality; only visibility is checked there
		pol.kinds = map[string][]string{"put": {"put-err"}}
	} else {
		pol.kinds = map[string][]string{"put": {"put-err"}, "write": {"write-err", "short-write"}, "close": {"close-err", "rename-err"}}
	}
	// source-read variant: an atomic copy whose SOURCE fails to deliver its k-th chunk (violations carry their
	// own signature namespace, like those seen through the limit view)
	srcRead := method == "Copy" && (backend == "os" || backend == "osmap") && tp.Draw("b.srcread", 3) == 2
	if srcRead {
		ns = "C15|source-read|"
		pol.srcRead, pol.budget = true, 1
		s.Probe("atomic-copy-with-failing-source")
	}
	s.Policy = pol
	s.Event("caseB backend=%s hasOld=%v writers=%d readers=%d method=%s target=%s srcread=%v", backend, hasOld, nWriters, nReaders, method, target, srcRead)

	dir := filepath.Join(r.env.Scratch, "b", "root")
	if err := os.MkdirAll(dir, 0o755); err != nil {
		panic(err)
	}
	var raw storage.ReadWriteBucket
	var bucket storage.ReadWriteBucket
	fileOnDisk := ""
	bg := context.Background()
	switch backend {
	case "mem":
		raw = storagemem.NewReadWriteBucket()
		bucket = &simfs.Bucket{S: s, U: raw, Name: "dst", YieldReads: true}
	default:
		osb, err := storageos.NewProvider().NewReadWriteBucket(dir)
		if backend == "oslink" {
			// a bucket that follows symbolic links (what the command line uses); the object that is
			// replaced is a link to a file next to it
			osb, err = storageos.NewProvider(storageos.ProviderWithSymlinks()).NewReadWriteBucket(dir, storageos.ReadWriteBucketWithSymlinksIfSupported())
		}
		if err != nil {
			panic(err)
		}
		r.hooks.RenameYield = true
		sb := &simfs.Bucket{S: s, U: osb, Name: "dst", Hooks: r.hooks, YieldReads: true}
		raw, bucket = osb, sb
		fileOnDisk = filepath.Join(dir, filepath.FromSlash(target))
		if backend == "oslimit" {
			// a byte limit that some of the puts exceed: the wrapper rejects the write that crosses it
			limit := 1 + tp.Draw("b.limit", 2*len(news[0])+2)
			bucket = limitedBucket{ReadBucket: sb, WriteBucket: storage.LimitWriteBucket(sb, limit)}
			s.Event("limit=%d", limit)
		}
		if backend == "osmap" {
			raw = storage.MapReadWriteBucket(osb, storage.MapOnPrefix("view"))
			bucket = storage.MapReadWriteBucket(sb, storage.MapOnPrefix("view"))
			fileOnDisk = filepath.Join(dir, "view", filepath.FromSlash(target))
		}
	}
	if err := storage.PutPath(bg, raw, "bystander.txt", []byte("bystander")); err != nil {
		panic(err)
	}
	if hasOld && backend == "oslink" {
		real := filepath.Join(filepath.Dir(fileOnDisk), "real-old.bin")
		if err := os.MkdirAll(filepath.Dir(real), 0o755); err != nil {
			panic(err)
		}
		if err := os.WriteFile(real, old, 0o644); err != nil {
			panic(err)
		}
		if err := os.Symlink("real-old.bin", fileOnDisk); err != nil {
			panic(err)
		}
	} else if hasOld {
		if err := storage.PutPath(bg, raw, target, old); err != nil {
			panic(err)
		}
	}
	pre, _ := simfs.DirState(dir)
	allowed := map[string]bool{}
	if hasOld {
		allowed[string(old)] = true
	}
	for _, n := range news {
		allowed[string(n)] = true
	}
	classify := func(content string) string {
		if hasOld && content == string(old) {
			return "old"
		}
		for i, n := range news {
			if content == string(n) {
				return fmt.Sprintf("new%d", i)
			}
		}
		return ""
	}
	crashPoints := 0
	crashStates := map[string]struct{}{}
	// the observer: at every scheduling point, what would a reader see after kill -9 now?
	s.BeforeRelease = func(op sched.Op) {
		crashPoints++
		var content string
		exists := false
		if fileOnDisk != "" {
			data, err := os.ReadFile(fileOnDisk)
			if err == nil {
				exists = true
				content = string(data)
			}
			st, _ := simfs.DirState(dir)
			crashStates[simfs.StateHash(st)] = struct{}{}
		} else {
			data, err := storage.ReadPath(bg, raw, target)
			if err == nil {
				exists = true
				content = string(data)
			}
		}
		if !exists {
			if hasOld {
				s.Violate("atomic-visible-in-full", ns+"atomic-crash-state|missing|"+method,
					"at step %d (before %s) the object %s does not exist although it held the previous content", s.Steps, op.Key(), target)
			}
			return
		}
		if classify(content) == "" {
			s.Violate("atomic-visible-in-full", ns+"atomic-crash-state|partial|"+method,
				"at step %d (before %s) %s holds %d bytes that are neither the previous nor a complete new content", s.Steps, op.Key(), target, len(content))
		}
	}
	werrs := make([]error, nWriters)
	wdone := make([]bool, nWriters)
	firedBefore := totalFired(s)
	for i := 0; i < nWriters; i++ {
		i := i
		proc := s.Proc(fmt.Sprintf("w%d", i))
		s.Spawn(proc, func(ctx context.Context) {
			data := news[i]
			switch method {
			case "PutPath":
				werrs[i] = storage.PutPath(ctx, bucket, target, data, storage.PutWithAtomic())
			case "ForWriteObject":
				werrs[i] = storage.ForWriteObject(ctx, bucket, target, func(wo storage.WriteObject) error {
					n := chunks[i]
					for c := 0; c < n; c++ {
						lo, hi := len(data)*c/n, len(data)*(c+1)/n
						if _, err := wo.Write(data[lo:hi]); err != nil {
							return err
						}
					}
					return nil
				}, storage.PutWithAtomic())
			case "Copy":
				src, err := storagemem.NewReadBucket(map[string][]byte{target: data})
				if err != nil {
					panic(err)
				}
				if srcRead {
					_, werrs[i] = storage.Copy(ctx, &simfs.Bucket{S: s, U: simfs.ReadOnly(src), Name: "src", YieldReads: true}, bucket, storage.CopyWithAtomic())
				} else {
					_, werrs[i] = storage.Copy(ctx, src, bucket, storage.CopyWithAtomic())
				}
			}
			wdone[i] = true
		})
	}
	for j := 0; j < nReaders; j++ {
		proc := s.Proc(fmt.Sprintf("r%d", j))
		rounds := 1 + tp.Draw("b.rounds", 3)
		s.Spawn(proc, func(ctx context.Context) {
			for k := 0; k < rounds; k++ {
				roc, err := bucket.Get(ctx, target)
				if err != nil {
					if storage.IsNotExist(err) {
						if hasOld {
							s.Violate("atomic-visible-in-full", ns+"atomic-reader|missing|"+method, "reader: %s not found although it held the previous content", target)
						}
						continue
					}
					if sched.ProcOf(ctx).Dead {
						return
					}
					s.Violate("atomic-visible-in-full", ns+"atomic-reader|get-error|"+method, "reader: unexpected error %v", err)
					continue
				}
				data, rerr := io.ReadAll(roc)
				_ = roc.Close()
				if rerr != nil {
					if sched.ProcOf(ctx).Dead {
						return
					}
					s.Violate("atomic-visible-in-full", ns+"atomic-reader|read-error|"+method, "reader: read error %v", rerr)
					continue
				}
				c := classify(string(data))
				if c == "" {
					s.Violate("atomic-visible-in-full", ns+"atomic-reader|partial|"+method,
						"reader saw %d bytes that are neither the previous nor a complete new content", len(data))
				} else {
					s.Probe("reader-saw-" + strings.TrimRight(c, "0123456789"))
				}
			}
		})
	}
	s.Run()
	s.BeforeRelease = nil
	if s.Deadlocked {
		s.Violate("harness-deadlock", "harness|deadlock|atomic", "deadlock in part B")
	}
	fired := totalFired(s) - firedBefore - s.Faults["proc-crash"]
	crashed := s.Faults["proc-crash"] > 0
	// final state
	final, ferr := storage.ReadPath(bg, raw, target)
	anyOK := false
	for i := range werrs {
		if wdone[i] && werrs[i] == nil {
			anyOK = true
		}
	}
	if nWriters == 1 && !crashed && wdone[0] {
		if limitHit := backend == "oslimit" && werrs[0] != nil && storage.IsWriteLimitReached(werrs[0]); limitHit {
			s.Probe("write-limit-reached")
		}
		if fired > 0 && werrs[0] == nil {
			s.Violate("write-failure-reported", ns+"unreported|atomic-"+method, "an injected failure fired but the atomic put returned nil")
		}
		if werrs[0] != nil {
			// failed atomic put: nothing new, nothing left behind
			post, _ := simfs.DirState(dir)
			if backend != "mem" {
				if d := diffState(pre, post); d != "" {
					s.Violate("failed-atomic-put-leaves-nothing", ns+"atomic-failed-put-residue|"+method,
						"atomic put failed (%v) but the directory changed: %s", werrs[0], d)
				}
			} else if hasOld != (ferr == nil) || (hasOld && string(final) != string(old)) {
				s.Violate("failed-atomic-put-leaves-nothing", ns+"atomic-failed-put-residue|"+method, "atomic put failed but the object changed")
			}
			s.Probe("atomic-put-failed-clean")
		} else if string(final) != string(news[0]) {
			s.Violate("success-implies-complete", ns+"success-incomplete|atomic-"+method, "atomic put returned nil but the object does not hold the new content")
		}
	}
	if !crashed {
		if anyOK {
			ok := false
			for i := range werrs {
				if wdone[i] && werrs[i] == nil && ferr == nil && string(final) == string(news[i]) {
					ok = true
				}
			}
			if !ok {
				s.Violate("success-implies-complete", ns+"success-incomplete|atomic-final|"+method, "a writer succeeded but the final content is not the content of any successful writer")
			}
		}
		if backend != "mem" {
			post, _ := simfs.DirState(dir)
			for _, k := range simfs.SortedKeys(post) {
				if simfs.IsTemp(k) {
					s.Violate("failed-atomic-put-leaves-nothing", ns+"atomic-temp-left|"+method, "temp file %s left behind although no process crashed", k)
					break
				}
			}
		}
	} else {
		s.Probe("crash-during-atomic-put")
		post, _ := simfs.DirState(dir)
		for _, k := range simfs.SortedKeys(post) {
			if simfs.IsTemp(k) {
				s.Probe("crash-left-temp-file")
				break
			}
		}
	}
	if backend != "mem" {
		// (C13) whatever the writers did - a failed put cleans up after itself - the directory holding the
		// root (it holds nothing else when the target has no sub-directory of its own) is still there
		if _, err := os.Lstat(filepath.Dir(dir)); err != nil {
			s.Violate("nothing-outside-root-touched", "C13|nothing-outside-root-touched|write-path-removed-parent-of-root|atomic-"+method,
				"after %d atomic put(s) of %s (backend %s) the directory that held the bucket's root directory is gone", nWriters, target, backend)
		} else {
			s.Probe("root-parent-survived-write-path")
		}
	}
	s.Drain()
	out := engine.FromSim(s)
	out.Counters = map[string]int{"crash_points": crashPoints}
	var cs []string
	for k := range crashStates {
		cs = append(cs, k)
	}
	out.Distinct = map[string][]string{"crash-state": cs}
	out.Sample = map[string]any{
		"part": "B", "backend": backend, "has_old": hasOld, "writers": nWriters, "readers": nReaders, "method": method,
		"target": target, "new_sizes": func() []int {
			v := []int{}
			for _, n := range news {
				v = append(v, len(n))
			}
			return v
		}(),
		"crash_points": crashPoints, "faults": s.Faults,
	}
	return out
}

// limitedBucket reads through the instrumented bucket and writes through storage.LimitWriteBucket.
type limitedBucket struct {
	storage.ReadBucket
	storage.WriteBucket
}
