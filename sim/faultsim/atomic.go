package faultsim

import (
	"github.com/bufbuild/verif/engine"
)

// runAtomic is part B (atomic put); filled in below.
func runAtomic(r *runner) *engine.Outcome {
	r.s.Drain()
	return engine.FromSim(r.s)
}
