package cachesim

import (
	"context"
	"encoding/json"
	"fmt"
	"os"
	"path/filepath"
	"strconv"
	"testing"
	"testing/synctest"
	"time"

	"github.com/bufbuild/buf/private/pkg/filelock"
	"github.com/bufbuild/verif/tape"
)

// TestLockConformance justifies stubbing filelock.Locker in the cache
// simulation: tape-drawn sequences of Lock / RLock / Unlock from several handles
// on one or two paths are applied to the REAL locker (real flock(2) on a scratch
// directory; every acquisition is its own open file description, so handles
// conflict inside one process exactly as between processes) and to the lock
// model; acquired / timed-out outcomes must agree. Waiting happens on
// synctest's fake clock, so timeouts cost no wall time.
func TestLockConformance(t *testing.T) {
	seed, _ := strconv.ParseUint(os.Getenv("VERIF_SEED"), 10, 64)
	n, _ := strconv.Atoi(os.Getenv("VERIF_LOCK_SEQS"))
	if n == 0 {
		n = 200
	}
	root := os.Getenv("VERIF_SCRATCH")
	if root == "" {
		root = fmt.Sprintf("/dev/shm/verif-lock-%d", os.Getpid())
	}
	defer os.RemoveAll(root)
	res := &lockResult{}
	for seq := 0; seq < n; seq++ {
		dir := filepath.Join(root, fmt.Sprintf("s%d", seq))
		if err := os.MkdirAll(dir, 0o755); err != nil {
			t.Fatal(err)
		}
		tp := tape.New(seed, "lock-conformance", uint64(seq))
		func() {
			// a real locker that misbehaves can leave goroutines blocked when the bubble ends
			defer func() {
				if r := recover(); r != nil {
					res.Mismatches = append(res.Mismatches, fmt.Sprintf("seq %d: the sequence did not end cleanly: %v", seq, r))
				}
			}()
			runLockSequence(t, dir, tp, seq, res)
		}()
	}
	data, _ := json.Marshal(res)
	if out := os.Getenv("VERIF_OUT"); out != "" {
		if err := os.WriteFile(out, data, 0o644); err != nil {
			t.Fatal(err)
		}
	} else {
		fmt.Println(string(data))
	}
}

type lockResult struct {
	Sequences  int      `json:"sequences"`
	Operations int      `json:"operations"`
	Acquired   int      `json:"acquired"`
	TimedOut   int      `json:"timed_out"`
	Handoffs   int      `json:"handoffs"`
	Mismatches []string `json:"mismatches"`
}

func runLockSequence(t *testing.T, dir string, tp *tape.Tape, seq int, res *lockResult) {
	{
		synctest.Test(t, func(t *testing.T) {
			locker, err := filelock.NewLocker(dir, filelock.LockerWithLockTimeout(700*time.Millisecond), filelock.LockerWithLockRetryDelay(100*time.Millisecond))
			if err != nil {
				t.Fatal(err)
			}
			ctx := context.Background()
			paths := []string{"a.lock", "sub/b.lock"}
			type held struct {
				path      string
				exclusive bool
				u         filelock.Unlocker
			}
			var holds []*held
			can := func(path string, exclusive bool) bool {
				for _, h := range holds {
					if h.path == path && (exclusive || h.exclusive) {
						return false
					}
				}
				return true
			}
			steps := 4 + tp.Draw("steps", 12)
			for i := 0; i < steps; i++ {
				res.Operations++
				op := tp.Draw("op", 5)
				if op == 4 && len(holds) > 0 {
					k := tp.Draw("which", len(holds))
					if err := holds[k].u.Unlock(); err != nil {
						res.Mismatches = append(res.Mismatches, fmt.Sprintf("seq %d step %d: unlock failed: %v", seq, i, err))
					}
					holds = append(holds[:k], holds[k+1:]...)
					continue
				}
				path := paths[tp.Draw("path", len(paths))]
				exclusive := op%2 == 0
				want := can(path, exclusive)
				// sometimes a holder lets go while we wait: the waiter must then get the lock
				handoff := false
				if !want && tp.Draw("handoff", 3) == 1 {
					var blockers []*held
					for _, h := range holds {
						if h.path == path && (exclusive || h.exclusive) {
							blockers = append(blockers, h)
						}
					}
					handoff = true
					go func() {
						time.Sleep(250 * time.Millisecond)
						for _, b := range blockers {
							_ = b.u.Unlock()
						}
					}()
					var rest []*held
					for _, h := range holds {
						keep := true
						for _, b := range blockers {
							if b == h {
								keep = false
							}
						}
						if keep {
							rest = append(rest, h)
						}
					}
					holds = rest
					want = true
					res.Handoffs++
				}
				// lock files are never deleted, so most of them are old: their age must not matter
				if tp.Draw("age", 3) == 2 {
					old := time.Date(1990, 1, 1, 0, 0, 0, 0, time.UTC)
					_ = filepath.Walk(dir, func(p string, info os.FileInfo, err error) error {
						if err == nil && info.Mode().IsRegular() {
							_ = os.Chtimes(p, old, old)
						}
						return nil
					})
				}
				var u filelock.Unlocker
				var err error
				if exclusive {
					u, err = locker.Lock(ctx, path)
				} else {
					u, err = locker.RLock(ctx, path)
				}
				got := err == nil
				if got != want {
					res.Mismatches = append(res.Mismatches, fmt.Sprintf("seq %d step %d: %s exclusive=%v handoff=%v: real locker acquired=%v, model says %v (err=%v)", seq, i, path, exclusive, handoff, got, want, err))
				}
				if got {
					res.Acquired++
					holds = append(holds, &held{path: path, exclusive: exclusive, u: u})
				} else {
					res.TimedOut++
				}
			}
			for _, h := range holds {
				_ = h.u.Unlock()
			}
		})
		res.Sequences++
	}
}
