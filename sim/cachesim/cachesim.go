// Package cachesim decides C09: whatever happens while dependency modules are
// cached - a crash at any instant, an I/O error on any write, several buf
// processes caching and reading the same module at once, later tampering - a
// read yields "not cached", the pinned content, or an error; an interrupted
// store never leaves the entry marked complete; a later store repairs it.
//
// Simulated processes are goroutine trees with their own cache provider, store,
// instrumented disk bucket and locker over ONE real directory and ONE lock
// table. The scheduler interleaves them at the granularity of single bucket,
// lock, hook and registry operations and injects faults and crashes.
package cachesim

import (
	"bytes"
	"context"
	"errors"
	"fmt"
	"io/fs"
	"os"
	"path/filepath"
	"sort"
	"strings"
	"sync"
	"time"

	"github.com/bufbuild/buf/private/buf/bufcli"
	"github.com/bufbuild/buf/private/bufpkg/bufcas"
	"github.com/bufbuild/buf/private/bufpkg/bufmodule"
	"github.com/bufbuild/buf/private/bufpkg/bufmodule/bufmodulecache"
	"github.com/bufbuild/buf/private/bufpkg/bufmodule/bufmodulestore"
	"github.com/bufbuild/buf/private/pkg/app"
	"github.com/bufbuild/buf/private/pkg/app/appext"
	"github.com/bufbuild/buf/private/pkg/filelock"
	"github.com/bufbuild/buf/private/pkg/slogext"
	"github.com/bufbuild/buf/private/pkg/storage"
	"github.com/bufbuild/buf/private/pkg/storage/storagemem"
	"github.com/bufbuild/buf/private/pkg/storage/storageos"
	"github.com/bufbuild/buf/private/pkg/thread"
	"github.com/bufbuild/buf/private/pkg/uuidutil"
	"github.com/bufbuild/buf/private/pkg/verifhook"
	"github.com/bufbuild/verif/engine"
	"github.com/bufbuild/verif/modgen"
	"github.com/bufbuild/verif/sched"
	"github.com/bufbuild/verif/simfs"
	"github.com/bufbuild/verif/simlock"
	"github.com/bufbuild/verif/tape"
)

// ---- registry stub ----

type registry struct {
	m     *csim
	calls map[string]int // "proc|module" -> number of times asked
}

func (r *registry) GetModuleDatasForModuleKeys(ctx context.Context, keys []bufmodule.ModuleKey) ([]bufmodule.ModuleData, error) {
	if len(keys) == 0 {
		return nil, nil
	}
	names := make([]string, len(keys))
	for i, k := range keys {
		names[i] = k.FullName().Name()
	}
	d := r.m.s.Yield(ctx, "reg.get", strings.Join(names, ","))
	if d.Dead {
		return nil, sched.ErrCrashed
	}
	if d.Fault == "registry-err" {
		r.m.s.Fired(d.Fault)
		return nil, d.Err("registry")
	}
	if p := sched.ProcOf(ctx); p != nil {
		for i, n := range names {
			// requests that pin another digest than the module has (a deliberate workload item) are not counted
			if mod := r.m.u.ByCommit(keys[i].CommitID()); mod != nil {
				want, _ := mod.Key.Digest()
				got, _ := keys[i].Digest()
				if !bufmodule.DigestEqual(want, got) {
					continue
				}
			}
			r.calls[p.Name+"|"+n]++
		}
	}
	datas, err := r.m.u.Provider.GetModuleDatasForModuleKeys(ctx, keys)
	if err != nil {
		return nil, err
	}
	if d.Fault == "registry-wrong-content" {
		r.m.s.Fired(d.Fault)
		// the first module's content does not match the digest pinned by its key
		good := datas[0]
		key := keys[0]
		mod := r.m.u.ByCommit(key.CommitID())
		bad := map[string][]byte{}
		for p, c := range mod.Files {
			bad[p] = c
		}
		first := simfs.SortedKeys(mod.ModuleFiles)[0]
		bad[first] = append(append([]byte{}, bad[first]...), []byte("\n// tampered in transit\n")...)
		datas[0] = bufmodule.NewModuleData(ctx, key,
			func() (storage.ReadBucket, error) { return storagemem.NewReadBucket(bad) },
			func() ([]bufmodule.ModuleKey, error) { return good.DepModuleKeys() },
			func() (bufmodule.ObjectData, error) { return good.V1Beta1OrV1BufYAMLObjectData() },
			func() (bufmodule.ObjectData, error) { return good.V1Beta1OrV1BufLockObjectData() },
		)
	}
	return datas, nil
}

// GetCommitsForModuleKeys implements bufmodule.CommitProvider.
func (r *registry) GetCommitsForModuleKeys(ctx context.Context, keys []bufmodule.ModuleKey) ([]bufmodule.Commit, error) {
	if len(keys) == 0 {
		return nil, nil
	}
	names := make([]string, len(keys))
	for i, k := range keys {
		names[i] = k.FullName().Name()
	}
	d := r.m.s.Yield(ctx, "reg.commits", strings.Join(names, ","))
	if d.Dead {
		return nil, sched.ErrCrashed
	}
	if d.Fault == "registry-err" {
		r.m.s.Fired(d.Fault)
		return nil, d.Err("registry")
	}
	return r.m.u.Provider.GetCommitsForModuleKeys(ctx, keys)
}

// GetCommitsForCommitKeys implements bufmodule.CommitProvider.
func (r *registry) GetCommitsForCommitKeys(ctx context.Context, keys []bufmodule.CommitKey) ([]bufmodule.Commit, error) {
	return r.m.u.Provider.GetCommitsForCommitKeys(ctx, keys)
}

// ---- fault policy ----

type swarm struct {
	faults    bool
	rate      int // one in rate operations is hit
	kinds     map[string][]string
	crashRate int
	machine   bool
	budget    int
	stalls    bool
	// cancelRate: one in cancelRate operations of a process is the moment its context is
	// cancelled (ctrl-C, --timeout): everything it does afterwards may fail, nothing may lie
	cancelRate int
	// cancelWorkers: cancellation prefers the moments at which a parallel job of the process is about to act
	cancelWorkers bool
}

type policy struct {
	m *csim
}

func (p *policy) Decide(s *sched.Sim, op sched.Op) sched.Decision {
	sw := p.m.sw
	if !sw.faults || p.m.quiet {
		return sched.Decision{}
	}
	if sw.crashRate > 0 && sw.budget > 0 && s.Tape.Draw("crash?", sw.crashRate) == 1 {
		sw.budget--
		if sw.machine && s.Tape.Draw("machine?", 3) == 1 {
			return sched.Decision{Fault: "machine-crash"}
		}
		return sched.Decision{Fault: "proc-crash"}
	}
	if sw.cancelRate > 0 && sw.budget > 0 {
		p.m.cancelMu.Lock()
		cancel := p.m.cancels[op.Proc]
		p.m.cancelMu.Unlock()
		rate := sw.cancelRate
		if sw.cancelWorkers && op.Job != "" {
			// inside an operation with in-flight state: one of the parallel jobs of a copy is about to act
			rate = min(rate, 6)
		}
		if cancel != nil && s.Tape.Draw("cancel?", rate) == 1 {
			sw.budget--
			p.m.cancelMu.Lock()
			delete(p.m.cancels, op.Proc)
			p.m.cancelMu.Unlock()
			cancel()
			p.m.cancelled[op.Proc] = true
			s.Fired("cancel")
			return sched.Decision{}
		}
	}
	kind := op.Kind
	if i := strings.Index(kind, ">"); i >= 0 {
		return sched.Decision{}
	}
	ks := sw.kinds[kind]
	if len(ks) == 0 || sw.rate == 0 || sw.budget == 0 {
		return sched.Decision{}
	}
	v := s.Tape.Draw("fault?", sw.rate)
	if v == 0 || v > len(ks) {
		return sched.Decision{}
	}
	sw.budget--
	d := sched.Decision{Fault: ks[v-1]}
	switch d.Fault {
	case "short-write":
		if op.Size > 1 {
			d.Arg = 1 + s.Tape.Draw("short", op.Size-1)
		}
	case "stall":
		d.Arg = 1000 + s.Tape.Draw("stallms", 4000)
	}
	return d
}

// ---- the simulation ----

type csim struct {
	tp   *tape.Tape
	s    *sched.Sim
	env  *engine.Env
	u    *modgen.Universe
	root string // the cache root: modules/ and commits/
	dir  string // the module cache directory
	raw  storage.ReadWriteBucket
	cdir string // the commit cache directory
	craw storage.ReadWriteBucket
	// taintedCommit[module index]: its commit file was altered but may still parse
	taintedCommit map[int]bool
	hooks         *simfs.Hooks
	table         *simlock.Table
	reg           *registry
	sw            *swarm
	// cancels[process name]: cancels the context that process works under
	cancels  map[string]context.CancelFunc
	cancelMu sync.Mutex
	// cancelled[process name]: its context has been cancelled (scheduler goroutine only)
	cancelled map[string]bool
	tar       bool
	quiet     bool
	// tainted[module index]: tampered in a way that need not be repaired
	tainted map[int]bool
	// provided[proc] = modules the process obtained successfully
	counters    map[string]int
	crashStates map[string]struct{}
	snapSeq     int
	procSeq     int
	// wired: some processes of the run obtain their providers from the command line's own wiring
	// (bufcli.NewModuleDataProvider / NewCommitProvider on a container with that process's environment)
	wired  bool
	home   string
	modRel string // module cache directory relative to root
	comRel string // commit cache directory relative to root
	// wiring[process]: the process whose providers are being constructed (lockers have no context)
	wiringProc *sched.Proc
}

func (m *csim) violate(oracle, site, format string, args ...any) {
	msg := fmt.Sprintf(format, args...)
	msg = strings.ReplaceAll(msg, m.env.Scratch, "<scratch>")
	layout := "dir"
	if m.tar {
		layout = "tar"
	}
	m.s.Violate(oracle, "C09|"+oracle+"|"+site+"|"+layout, "%s", msg)
}

func (m *csim) storeOpts() []bufmodulestore.ModuleDataStoreOption {
	if m.tar {
		return []bufmodulestore.ModuleDataStoreOption{bufmodulestore.ModuleDataStoreWithTar()}
	}
	return nil
}

// consume reads everything a ModuleData offers.
type consumed struct {
	files map[string]string
	deps  []string
	// depDigests are the digests of the dependency keys, sorted
	depDigests []string
	// which parts were obtained without an error
	haveFiles, haveDeps, haveYAML, haveLock bool
	yaml                                    string
	lock                                    string
}

// consume reads everything a ModuleData offers. Every accessor is tried on its own - an
// error of one does not stop the others - because each accessor has to verify the digest
// itself: whatever ANY accessor hands out without an error must be right. The returned
// error is the first one seen (nil only if every accessor succeeded).
func consume(ctx context.Context, md bufmodule.ModuleData) (*consumed, error) {
	out := &consumed{files: map[string]string{}}
	var firstErr error
	note := func(err error) {
		if firstErr == nil {
			firstErr = err
		}
	}
	if b, err := md.Bucket(); err != nil {
		note(err)
	} else {
		var paths []string
		if err := b.Walk(ctx, "", func(info storage.ObjectInfo) error {
			paths = append(paths, info.Path())
			return nil
		}); err != nil {
			note(err)
		} else {
			ok := true
			for _, p := range paths {
				data, err := storage.ReadPath(ctx, b, p)
				if err != nil {
					note(err)
					ok = false
					break
				}
				out.files[p] = string(data)
			}
			out.haveFiles = ok
		}
	}
	if deps, err := md.DepModuleKeys(); err != nil {
		note(err)
	} else {
		ok := true
		for _, d := range deps {
			out.deps = append(out.deps, d.String())
			dd, err := d.Digest()
			if err != nil {
				note(err)
				ok = false
				break
			}
			out.depDigests = append(out.depDigests, dd.String())
		}
		sort.Strings(out.deps)
		sort.Strings(out.depDigests)
		out.haveDeps = ok
	}
	if y, err := md.V1Beta1OrV1BufYAMLObjectData(); err != nil {
		note(err)
	} else {
		out.haveYAML = true
		if y != nil {
			out.yaml = y.Name() + ":" + string(y.Data())
		}
	}
	if l, err := md.V1Beta1OrV1BufLockObjectData(); err != nil {
		note(err)
	} else {
		out.haveLock = true
		if l != nil {
			out.lock = l.Name() + ":" + string(l.Data())
		}
	}
	return out, firstErr
}

// wrong compares consumed content with the reference; "" means equal.
func (m *csim) wrong(mod *modgen.Module, c *consumed) string {
	return m.wrongT(mod, c, m.tainted[m.indexOf(mod)])
}

// wrongT: for an entry whose cached files were tampered with, only what the pinned digest
// covers is compared (file contents; for b5 the dependency DIGESTS; for b4 the v1 object
// data) - names and commit ids of dependency keys are stored beside, not under, the digest.
func (m *csim) wrongT(mod *modgen.Module, c *consumed, tainted bool) string {
	if c.haveFiles {
		for _, p := range simfs.SortedKeys(mod.ModuleFiles) {
			got, ok := c.files[p]
			if !ok {
				return "file " + p + " missing"
			}
			if got != string(mod.ModuleFiles[p]) {
				return fmt.Sprintf("file %s differs (%d bytes, reference %d)", p, len(got), len(mod.ModuleFiles[p]))
			}
		}
		for _, p := range simfs.SortedKeys(c.files) {
			if _, ok := mod.ModuleFiles[p]; !ok {
				return "extra file " + p
			}
		}
	}
	if c.haveDeps {
		if !tainted {
			if strings.Join(c.deps, ",") != strings.Join(mod.DepKeys, ",") {
				return fmt.Sprintf("dependency keys %v, reference %v", c.deps, mod.DepKeys)
			}
		} else if m.u.DigestType == bufmodule.DigestTypeB5 {
			var want []string
			for _, d := range m.u.Modules {
				for _, k := range mod.DepKeys {
					if d.Key.String() == k {
						dd, _ := d.Key.Digest()
						want = append(want, dd.String())
					}
				}
			}
			sort.Strings(want)
			if strings.Join(c.depDigests, ",") != strings.Join(want, ",") {
				return fmt.Sprintf("dependency digests %v, reference %v", c.depDigests, want)
			}
		}
	}
	if m.u.DigestType == bufmodule.DigestTypeB4 {
		if c.haveYAML && c.yaml != "buf.yaml:"+string(mod.BufYAML) {
			return "v1 buf.yaml object data differs"
		}
		if c.haveLock && c.lock != "buf.lock:"+string(mod.BufLock) {
			return "v1 buf.lock object data differs"
		}
	}
	return ""
}

// checkDatas is oracle O1 applied to a slice of ModuleData.
func (m *csim) checkDatas(ctx context.Context, who, site string, datas []bufmodule.ModuleData, strict bool) (ok []int) {
	for _, md := range datas {
		mod := m.u.ByCommit(md.ModuleKey().CommitID())
		if mod == nil {
			m.violate("no-wrong-content", site, "%s: store returned data for an unknown commit %s", who, uuidutil.ToDashless(md.ModuleKey().CommitID()))
			continue
		}
		idx := m.indexOf(mod)
		c, err := consume(ctx, md)
		if p := sched.ProcOf(ctx); p != nil && p.Dead {
			return ok
		}
		if err != nil {
			// some accessor failed: what the OTHER accessors handed out without error must still be right
			if w := m.wrong(mod, c); w != "" {
				m.violate("no-wrong-content", site+"|partial", "%s: an accessor of %s failed (%v) but another one served wrong content without error: %s", who, mod.Name, firstLine(err), w)
			}
			var mismatch *bufmodule.DigestMismatchError
			if errors.As(err, &mismatch) {
				m.s.Probe("digest-mismatch-returned")
			}
			if strict {
				m.violate("fault-free-strict", site, "%s: reading %s failed without any fault: %v", who, mod.Name, err)
			}
			continue
		}
		if w := m.wrong(mod, c); w != "" {
			m.violate("no-wrong-content", site, "%s: content served for %s without error is wrong: %s", who, mod.Name, w)
			continue
		}
		ok = append(ok, idx)
	}
	return ok
}

func firstLine(err error) string {
	return strings.SplitN(err.Error(), "\n", 2)[0]
}

func (m *csim) indexOf(mod *modgen.Module) int {
	for i, x := range m.u.Modules {
		if x == mod {
			return i
		}
	}
	return -1
}

// ---- crash snapshots: every distinct disk state is a crash state ----

func (m *csim) snapshot(op sched.Op) {
	if m.u.Big && m.s.Steps%29 != 0 {
		// (a module of hundreds of files: every step is a new state; one crash point in 29 is recovered from)
		return
	}
	st, err := simfs.DirState(m.root)
	if err != nil {
		return
	}
	h := simfs.StateHash(st)
	m.counters["crash_points"]++
	if _, seen := m.crashStates[h]; seen {
		return
	}
	m.crashStates[h] = struct{}{}
	m.counters["crash_states_checked"]++
	m.snapSeq++
	copyDir := filepath.Join(m.env.Scratch, fmt.Sprintf("snap%d", m.snapSeq))
	if err := simfs.CopyDir(m.root, copyDir); err != nil {
		panic(err)
	}
	defer os.RemoveAll(copyDir)
	m.recover(copyDir, fmt.Sprintf("crash before step %d (%s)", m.s.Steps, op.Key()), "crash")
}

// recover runs O2 and O3 against a directory with fresh, un-instrumented components.
func (m *csim) recover(root, when, site string) {
	ctx := context.Background()
	m.recoverCommits(ctx, filepath.Join(root, m.comRel), when, site)
	raw, err := storageos.NewProvider().NewReadWriteBucket(filepath.Join(root, m.modRel))
	if err != nil {
		panic(err)
	}
	store := bufmodulestore.NewModuleDataStore(slogext.NopLogger, raw, filelock.NewNopLocker(), m.storeOpts()...)
	all := make([]int, len(m.u.Modules))
	for i := range all {
		all[i] = i
	}
	keys := m.u.Keys(all)
	// O2: whatever the store reports as found must be complete
	found, _, err := store.GetModuleDatasForModuleKeys(ctx, keys)
	if err != nil {
		m.violate("marker-implies-complete", site, "%s: store get failed: %v", when, err)
	}
	for _, md := range found {
		mod := m.u.ByCommit(md.ModuleKey().CommitID())
		idx := m.indexOf(mod)
		c, err := consume(ctx, md)
		if m.tainted[idx] {
			// every accessor that succeeds on a tampered entry must still serve what the digest pins
			if w := m.wrong(mod, c); w != "" {
				m.violate("no-wrong-content", site, "%s: tampered entry %s served wrong content without error: %s", when, mod.Name, w)
			}
			continue
		}
		if err != nil {
			m.violate("marker-implies-complete", site, "%s: entry %s is marked complete but cannot be read: %v", when, mod.Name, err)
			continue
		}
		if w := m.wrong(mod, c); w != "" {
			m.violate("no-wrong-content", site, "%s: entry %s is marked complete and served wrong content: %s", when, mod.Name, w)
		}
	}
	// O3: a later store repairs
	provider := bufmodulecache.NewModuleDataProvider(slogext.NopLogger, m.u.Provider, store)
	datas, err := provider.GetModuleDatasForModuleKeys(ctx, keys)
	anyTaint := false
	for i := range m.u.Modules {
		anyTaint = anyTaint || m.tainted[i]
	}
	if err != nil {
		if !anyTaint {
			m.violate("later-store-repairs", site, "%s: a fresh process with a healthy disk and registry cannot provide the modules: %v", when, err)
		}
		return
	}
	for _, md := range datas {
		mod := m.u.ByCommit(md.ModuleKey().CommitID())
		idx := m.indexOf(mod)
		c, err := consume(ctx, md)
		if err != nil {
			if !m.tainted[idx] {
				m.violate("later-store-repairs", site, "%s: after a fresh provide, %s still cannot be read: %v", when, mod.Name, err)
			}
			continue
		}
		if w := m.wrong(mod, c); w != "" {
			m.violate("no-wrong-content", site, "%s: after a fresh provide, %s has wrong content: %s", when, mod.Name, w)
		}
	}
}

// noPanic runs f and turns a panic of the code under test into a violation.
func (m *csim) noPanic(site, what string, f func()) {
	defer func() {
		if r := recover(); r != nil {
			m.violate("no-panic", site, "%s panicked: %v", what, r)
		}
	}()
	f()
}

// mockTime is the create time bufmoduletesting.OmniProvider gives every commit.
var mockTime = time.Unix(1672574400, 0)

// checkCommit is O1 for a commit: its lazy accessor fails, or it describes the pinned key.
func (m *csim) checkCommit(who, site string, key bufmodule.ModuleKey, c bufmodule.Commit) (ok bool, err error) {
	if c == nil {
		m.violate("no-wrong-content", site+"|nil-commit", "%s: a nil Commit was returned as found for %s", who, key.FullName().Name())
		return false, nil
	}
	ct, err := c.CreateTime()
	if err != nil {
		return false, err
	}
	// the create time is stored beside the digest, not under it: after tampering with the commit
	// file only the digest is comparable
	if idx := m.indexOf(m.u.ByCommit(key.CommitID())); !ct.Equal(mockTime) && !m.taintedCommit[idx] {
		m.violate("no-wrong-content", site, "%s: commit of %s served with create time %v without error", who, key.FullName().Name(), ct)
		return false, nil
	}
	want, _ := key.Digest()
	got, derr := c.ModuleKey().Digest()
	if derr != nil {
		return false, derr
	}
	// (the module NAME recorded in the commit file is not compared: the property pins content by digest)
	if !bufmodule.DigestEqual(want, got) || c.ModuleKey().CommitID() != key.CommitID() {
		m.violate("no-wrong-content", site, "%s: commit served for %s without error describes another key (%s)", who, key.String(), c.ModuleKey().String())
		return false, nil
	}
	return true, nil
}

// recoverCommits runs the recovery oracles for the commit cache on a copied directory.
func (m *csim) recoverCommits(ctx context.Context, dir, when, site string) {
	if err := os.MkdirAll(dir, 0o755); err != nil {
		panic(err)
	}
	raw, err := storageos.NewProvider().NewReadWriteBucket(dir)
	if err != nil {
		panic(err)
	}
	store := bufmodulestore.NewCommitStore(slogext.NopLogger, raw)
	all := make([]int, len(m.u.Modules))
	for i := range all {
		all[i] = i
	}
	keys := m.u.Keys(all)
	byCommit := map[string]int{}
	for i, k := range keys {
		byCommit[uuidutil.ToDashless(k.CommitID())] = i
	}
	found, _, err := store.GetCommitsForModuleKeys(ctx, keys)
	if err != nil {
		m.violate("marker-implies-complete", site+"|commit", "%s: commit store get failed: %v", when, err)
	}
	for _, c := range found {
		if c == nil {
			m.violate("no-wrong-content", site+"|commit|nil-commit", "%s: the commit store returned a nil Commit as found", when)
			continue
		}
		i := byCommit[uuidutil.ToDashless(c.ModuleKey().CommitID())]
		if _, err := m.checkCommit(when, site+"|commit", keys[i], c); err != nil && !m.taintedCommit[i] {
			m.violate("marker-implies-complete", site+"|commit", "%s: commit of module %d is cached but unusable: %v", when, i, err)
		}
	}
	provider := bufmodulecache.NewCommitProvider(slogext.NopLogger, m.u.Provider, store)
	var commits []bufmodule.Commit
	panicked := true
	m.noPanic(site+"|commit", when+": providing commits from the cache", func() {
		commits, err = provider.GetCommitsForModuleKeys(ctx, keys)
		panicked = false
	})
	if panicked {
		return
	}
	if err != nil {
		m.violate("later-store-repairs", site+"|commit", "%s: a fresh process cannot provide the commits: %v", when, err)
		return
	}
	for i, c := range commits {
		if _, err := m.checkCommit(when, site+"|commit", keys[i], c); err != nil && !m.taintedCommit[i] {
			m.violate("later-store-repairs", site+"|commit", "%s: after a fresh provide the commit of module %d is unusable: %v", when, i, err)
		}
	}
}

// ---- simulated processes ----

type action struct {
	kind string // provide | get | put
	mods []int
}

func (m *csim) drawScript() []action {
	n := 1 + m.tp.Draw("nactions", 3)
	var out []action
	for i := 0; i < n; i++ {
		a := action{kind: tape.Pick(m.tp, "akind", []string{"provide", "provide", "get", "put", "commits", "wrongpin"})}
		// non-empty subset of modules, in tape order
		perm := m.tp.Perm("amods", len(m.u.Modules))
		k := 1 + m.tp.Draw("anmods", len(m.u.Modules))
		a.mods = append(a.mods, perm[:k]...)
		out = append(out, a)
	}
	return out
}

type procResult struct {
	name     string
	provided map[int]bool
	errs     int
}

// procState is what one OS process holds: its provider, store and locker. A long-running
// process (an editor integration, an agent) keeps them across epochs, i.e. across tampering.
type procState struct {
	name           string
	proc           *sched.Proc
	store          bufmodulestore.ModuleDataStore
	provider       bufmodule.ModuleDataProvider
	commitProvider bufmodule.CommitProvider
	provided       map[int]bool
}

func (m *csim) newProcess(name string) *procState {
	if m.wired && m.tp.Draw("wiredproc", 3) != 0 {
		return m.newWiredProcess(name)
	}
	proc := m.s.Proc(name)
	bucket := &simfs.Bucket{S: m.s, U: m.raw, Name: "c", Hooks: m.hooks}
	locker := simlock.NewLocker(m.table, proc)
	store := bufmodulestore.NewModuleDataStore(slogext.NopLogger, bucket, locker, m.storeOpts()...)
	cbucket := &simfs.Bucket{S: m.s, U: m.craw, Name: "k", Hooks: m.hooks}
	return &procState{
		name: name, proc: proc, store: store,
		provider:       bufmodulecache.NewModuleDataProvider(slogext.NopLogger, m.reg, store),
		commitProvider: bufmodulecache.NewCommitProvider(slogext.NopLogger, m.reg, bufmodulestore.NewCommitStore(slogext.NopLogger, cbucket)),
		provided:       map[int]bool{},
	}
}

// wiredLocker stands in for filelock.NewLocker while a wired process is being constructed: one lock
// table entry per (lock directory, path), so that two processes exclude each other exactly when the
// wiring gave them the same lock directory.
func (m *csim) wiredLocker(rootDirPath string) filelock.Locker {
	l := simlock.NewLocker(m.table, m.wiringProc)
	want := filepath.Join(m.root, "v3", "modulelocks")
	if got := filepath.Clean(rootDirPath); got != want {
		l.Prefix = "[" + strings.ReplaceAll(got, m.env.Scratch, "<scratch>") + "]"
		m.s.Probe("wired-lock-directory-elsewhere")
	}
	return l
}

// newWiredProcess: a process whose providers are what the buf command would construct for its
// environment - cache directory from BUF_CACHE_DIR, XDG_CACHE_HOME or HOME, its own unwrapped disk
// buckets (the hooks below storageos are the scheduling and fault points), the lock directory the
// wiring chooses. All spellings of the environment denote the SAME cache directory; HOME and the data
// directories differ from process to process (two users, a container and its host, CI runners).
func (m *csim) newWiredProcess(name string) *procState {
	proc := m.s.Proc(name)
	other := filepath.Join(m.env.Scratch, "home-"+name)
	var envm map[string]string
	switch m.tp.Draw("wiredenv", 4) {
	case 0:
		envm = map[string]string{"HOME": m.home}
	case 1:
		envm = map[string]string{"HOME": other, "BUF_CACHE_DIR": m.root}
	case 2:
		envm = map[string]string{"HOME": other, "XDG_CACHE_HOME": filepath.Join(m.home, ".cache")}
	default:
		envm = map[string]string{"HOME": m.home, "BUF_CACHE_DIR": m.root, "XDG_DATA_HOME": filepath.Join(other, "data"), "XDG_CONFIG_HOME": filepath.Join(other, "config")}
	}
	nameContainer, err := appext.NewNameContainer(app.NewContainer(envm, strings.NewReader(""), &bytes.Buffer{}, &bytes.Buffer{}), "buf")
	if err != nil {
		panic(err)
	}
	container := appext.NewContainer(nameContainer, slogext.NopLogger)
	m.wiringProc = proc
	provider, err := bufcli.NewModuleDataProvider(container)
	if err != nil {
		panic(fmt.Sprintf("harness: wiring of the module data provider failed: %v", err))
	}
	commitProvider, err := bufcli.NewCommitProvider(container)
	if err != nil {
		panic(fmt.Sprintf("harness: wiring of the commit provider failed: %v", err))
	}
	// direct store operations of the script go through a store over the same directory and lock table
	store := bufmodulestore.NewModuleDataStore(slogext.NopLogger, m.raw, simlock.NewLocker(m.table, proc), m.storeOpts()...)
	m.wiringProc = nil
	m.s.Probe("wired-process")
	return &procState{name: name, proc: proc, store: store, provider: provider, commitProvider: commitProvider, provided: map[int]bool{}}
}

// slowProc: every second process (p1, p3, ...) is the slow one of a run that has slow processes.
func slowProc(name string) bool {
	return len(name) > 1 && name[0] == 'p' && (name[len(name)-1]-'0')%2 == 1
}

func (m *csim) spawn(script []action, strict bool) *procResult {
	m.procSeq++
	return m.spawnOn(m.newProcess(fmt.Sprintf("p%d", m.procSeq)), script, strict)
}

// wrongPin returns a key for the module's name and commit that pins ANOTHER digest.
func (m *csim) wrongPin(idx int) bufmodule.ModuleKey {
	mod := m.u.Modules[idx]
	right, _ := mod.Key.Digest()
	value := append([]byte(nil), right.Value()...) // Value() hands out the digest's own slice
	value[len(value)-1] ^= 0x01
	cas, err := bufcas.NewDigest(value)
	if err != nil {
		panic(err)
	}
	wrong, err := bufmodule.NewDigest(right.Type(), cas)
	if err != nil {
		panic(err)
	}
	key, err := bufmodule.NewModuleKey(mod.Key.FullName(), mod.CommitID, func() (bufmodule.Digest, error) { return wrong, nil })
	if err != nil {
		panic(err)
	}
	return key
}

func (m *csim) spawnOn(ps *procState, script []action, strict bool) *procResult {
	name, proc := ps.name, ps.proc
	store, provider, commitProvider := ps.store, ps.provider, ps.commitProvider
	res := &procResult{name: name, provided: ps.provided}
	m.s.Spawn(proc, func(ctx context.Context) {
		ctx, cancel := context.WithCancel(ctx)
		defer cancel()
		// (tasks run freely until their first scheduling point: the registry of cancel functions is locked)
		m.cancelMu.Lock()
		m.cancels[proc.Name] = cancel
		m.cancelMu.Unlock()
		defer func() {
			m.cancelMu.Lock()
			delete(m.cancels, proc.Name)
			m.cancelMu.Unlock()
		}()
		for ai, a := range script {
			keys := m.u.Keys(a.mods)
			site := a.kind
			who := fmt.Sprintf("%s action %d (%s %v)", name, ai, a.kind, a.mods)
			switch a.kind {
			case "provide":
				datas, err := provider.GetModuleDatasForModuleKeys(ctx, keys)
				if proc.Dead {
					return
				}
				if err != nil {
					res.errs++
					m.s.Event("%s provide %v -> error", name, a.mods)
					if strict {
						m.violate("fault-free-strict", site, "%s failed without any fault: %v", who, err)
					}
					continue
				}
				if len(datas) != len(keys) {
					m.violate("no-wrong-content", site, "%s returned %d module datas for %d keys", who, len(datas), len(keys))
				}
				for i, md := range datas {
					if i < len(keys) && md.ModuleKey().CommitID() != keys[i].CommitID() {
						m.violate("no-wrong-content", site, "%s: result %d is for another commit than requested", who, i)
					}
				}
				okIdx := m.checkDatas(ctx, who, site, datas, strict)
				if proc.Dead {
					return
				}
				for _, i := range okIdx {
					res.provided[i] = true
				}
				m.s.Event("%s provide %v -> ok %v", name, a.mods, okIdx)
			case "get":
				found, notFound, err := store.GetModuleDatasForModuleKeys(ctx, keys)
				if proc.Dead {
					return
				}
				if err != nil {
					res.errs++
					if strict {
						m.violate("fault-free-strict", site, "%s failed without any fault: %v", who, err)
					}
					continue
				}
				if len(found)+len(notFound) != len(keys) {
					m.violate("no-wrong-content", site, "%s: found %d + not found %d != %d keys", who, len(found), len(notFound), len(keys))
				}
				okIdx := m.checkDatas(ctx, who, site, found, strict)
				if proc.Dead {
					return
				}
				m.s.Event("%s get %v -> found %d ok %v", name, a.mods, len(found), okIdx)
				if strict {
					// fault-free: what this process provided earlier must still be found
					for _, i := range a.mods {
						if res.provided[i] && !containsInt(okIdx, i) {
							m.violate("fault-free-strict", site, "%s: module %d was provided earlier by this process but is not found now", who, i)
						}
					}
				}
			case "wrongpin":
				// the same name and commit, pinned to another digest: nothing may be served without an error
				var wkeys []bufmodule.ModuleKey
				for _, i := range a.mods {
					wkeys = append(wkeys, m.wrongPin(i))
				}
				datas, err := provider.GetModuleDatasForModuleKeys(ctx, wkeys)
				if proc.Dead {
					return
				}
				m.s.Event("%s wrongpin %v -> err=%v", name, a.mods, err != nil)
				if err != nil {
					continue
				}
				for _, md := range datas {
					c, _ := consume(ctx, md)
					if proc.Dead {
						return
					}
					if c.haveFiles || c.haveDeps {
						m.violate("no-wrong-content", site, "%s: content was served without error for a key that pins another digest than the cached / registry content has", who)
					}
				}
				m.s.Probe("wrong-pin-requested")
			case "commits":
				var commits []bufmodule.Commit
				var err error
				panicked := true
				m.noPanic(site, who, func() {
					commits, err = commitProvider.GetCommitsForModuleKeys(ctx, keys)
					panicked = false
				})
				if proc.Dead {
					return
				}
				if panicked {
					continue
				}
				if err != nil {
					res.errs++
					if strict {
						m.violate("fault-free-strict", site, "%s failed without any fault: %v", who, err)
					}
					continue
				}
				if len(commits) != len(keys) {
					m.violate("no-wrong-content", site, "%s returned %d commits for %d keys", who, len(commits), len(keys))
					continue
				}
				nok := 0
				for i, c := range commits {
					ok, cerr := m.checkCommit(who, site, keys[i], c)
					if proc.Dead {
						return
					}
					if ok {
						nok++
					} else if cerr != nil && strict {
						m.violate("fault-free-strict", site, "%s: commit unusable without any fault: %v", who, cerr)
					}
				}
				m.s.Event("%s commits %v -> ok %d", name, a.mods, nok)
			case "put":
				datas, err := m.u.Provider.GetModuleDatasForModuleKeys(ctx, keys)
				if err != nil {
					panic(err)
				}
				err = store.PutModuleDatas(ctx, datas)
				if proc.Dead {
					return
				}
				m.s.Event("%s put %v -> err=%v", name, a.mods, err != nil)
				if err != nil {
					res.errs++
					if strict {
						m.violate("fault-free-strict", site, "%s failed without any fault: %v", who, err)
					}
				}
			}
		}
	})
	return res
}

func containsInt(xs []int, x int) bool {
	for _, y := range xs {
		if x == y {
			return true
		}
	}
	return false
}

// ---- tampering between epochs ----

func (m *csim) entryPath(mod *modgen.Module) string {
	digest, err := mod.Key.Digest()
	if err != nil {
		panic(err)
	}
	digestType := digest.Type().String()
	fn := mod.Key.FullName()
	p := filepath.Join(m.dir, digestType, fn.Registry(), fn.Owner(), fn.Name(), uuidutil.ToDashless(mod.CommitID))
	if m.tar {
		return p + ".tar"
	}
	return p
}

// flipDepDigest changes one hex digit of a dependency digest recorded in a marker (in place).
func flipDepDigest(tp *tape.Tape, data []byte) bool {
	var at []int
	for _, needle := range []string{"digest: b5:", "digest: shake256:"} {
		for i := 0; ; {
			j := strings.Index(string(data[i:]), needle)
			if j < 0 {
				break
			}
			at = append(at, i+j+len(needle))
			i += j + len(needle)
		}
	}
	if len(at) == 0 {
		return false
	}
	sort.Ints(at)
	p := at[tp.Draw("tdep", len(at))] + tp.Draw("tdepoff", 64)
	if p >= len(data) {
		return false
	}
	if data[p] == '0' {
		data[p] = '1'
	} else {
		data[p] = '0'
	}
	return true
}

// retaint decides, for every module touched by tampering, whether it is exempt from the
// repair oracles: an entry that is STILL reported as found (its marker survived) may stay
// unusable for ever - readers get a digest mismatch; an entry that is no longer found must
// be repaired by the next store like any other miss. Decided on a copy, with a fresh store.
func (m *csim) retaint() {
	// directory layout: a store skips an entry whose marker is valid, so only tampering that
	// removes or invalidates the marker (kinds 0-2, never tainted) obliges a later store to
	// repair. Tar layout: a store always rewrites the tar, so every entry that is no longer
	// found must be repaired.
	if len(m.tainted) == 0 || !m.tar {
		return
	}
	m.snapSeq++
	copyDir := filepath.Join(m.env.Scratch, fmt.Sprintf("taint%d", m.snapSeq))
	if err := simfs.CopyDir(m.dir, copyDir); err != nil {
		panic(err)
	}
	defer os.RemoveAll(copyDir)
	raw, err := storageos.NewProvider().NewReadWriteBucket(copyDir)
	if err != nil {
		panic(err)
	}
	store := bufmodulestore.NewModuleDataStore(slogext.NopLogger, raw, filelock.NewNopLocker(), m.storeOpts()...)
	for _, idx := range sortedInts(m.tainted) {
		found, _, err := store.GetModuleDatasForModuleKeys(context.Background(), m.u.Keys([]int{idx}))
		if err == nil && len(found) == 0 {
			delete(m.tainted, idx)
			m.s.Probe("tamper-left-entry-uncached")
		}
	}
}

// isComplete says whether a fresh store (on a copy of the cache) reports the entry as found.
func (m *csim) isComplete(idx int) bool {
	m.snapSeq++
	copyDir := filepath.Join(m.env.Scratch, fmt.Sprintf("complete%d", m.snapSeq))
	if err := simfs.CopyDir(m.dir, copyDir); err != nil {
		panic(err)
	}
	defer os.RemoveAll(copyDir)
	raw, err := storageos.NewProvider().NewReadWriteBucket(copyDir)
	if err != nil {
		panic(err)
	}
	store := bufmodulestore.NewModuleDataStore(slogext.NopLogger, raw, filelock.NewNopLocker(), m.storeOpts()...)
	found, _, err := store.GetModuleDatasForModuleKeys(context.Background(), m.u.Keys([]int{idx}))
	return err == nil && len(found) == 1
}

func sortedInts(m map[int]bool) []int {
	var out []int
	for k := range m {
		out = append(out, k)
	}
	sort.Ints(out)
	return out
}

func (m *csim) tamperCommit() {
	idx := m.tp.Draw("tcmod", len(m.u.Modules))
	mod := m.u.Modules[idx]
	digest, _ := mod.Key.Digest()
	file := filepath.Join(m.cdir, digest.Type().String(), mod.Key.FullName().Registry(), uuidutil.ToDashless(mod.CommitID)+".json")
	data, err := os.ReadFile(file)
	if err != nil || len(data) == 0 {
		return
	}
	switch m.tp.Draw("tckind", 5) {
	case 3:
		// a well-formed commit file that records ANOTHER digest: one hex digit replaced
		i := bytes.Index(data, []byte(`"digest":"`))
		j := bytes.LastIndexByte(data, '"')
		if i < 0 || j <= i+20 {
			return
		}
		k := bytes.IndexByte(data[i+10:j], ':')
		if k < 0 {
			return
		}
		hexStart := i + 10 + k + 1
		pos := hexStart + m.tp.Draw("tchex", j-hexStart)
		const digits = "0123456789abcdef"
		d := digits[m.tp.Draw("tcdigit", 16)]
		if d == data[pos] {
			d = digits[(strings.IndexByte(digits, d)+1)%16]
		}
		data[pos] = d
		_ = os.WriteFile(file, data, 0o644)
		m.taintedCommit[idx] = true
		m.s.Fired("tamper-commit-digest")
	case 4:
		// the commit file of another module put in its place
		other := m.u.Modules[m.tp.Draw("tcother", len(m.u.Modules))]
		od, _ := other.Key.Digest()
		ofile := filepath.Join(m.cdir, od.Type().String(), other.Key.FullName().Registry(), uuidutil.ToDashless(other.CommitID)+".json")
		odata, err := os.ReadFile(ofile)
		if err != nil || other == mod || od.Type() != digest.Type() {
			return
		}
		_ = os.WriteFile(file, odata, 0o644)
		m.taintedCommit[idx] = true
		m.s.Fired("tamper-commit-swap")
	case 0:
		pos := m.tp.Draw("tcpos", len(data))
		data[pos] ^= byte(1 + m.tp.Draw("tcbit", 255))
		_ = os.WriteFile(file, data, 0o644)
		m.taintedCommit[idx] = true
		m.s.Fired("tamper-commit-flip")
	case 1:
		_ = os.WriteFile(file, data[:m.tp.Draw("tclen", len(data))], 0o644)
		m.taintedCommit[idx] = true
		m.s.Fired("tamper-commit-truncate")
	default:
		_ = os.Remove(file)
		m.s.Fired("tamper-commit-delete")
	}
	m.s.Event("tamper commit file of module %d", idx)
}

func (m *csim) tamper() {
	if m.tp.Draw("tcommit?", 4) == 3 {
		m.tamperCommit()
		return
	}
	idx := m.tp.Draw("tmod", len(m.u.Modules))
	mod := m.u.Modules[idx]
	entry := m.entryPath(mod)
	if _, err := os.Stat(entry); err != nil {
		return
	}
	// the property speaks about tampering with a COMPLETE entry
	if !m.isComplete(idx) {
		return
	}
	if m.tar {
		data, err := os.ReadFile(entry)
		if err != nil || len(data) == 0 {
			return
		}
		switch m.tp.Draw("ttar", 4) {
		case 3:
			if flipDepDigest(m.tp, data) {
				_ = os.WriteFile(entry, data, 0o644)
				m.tainted[idx] = true
				m.s.Fired("tamper-dep-digest")
			}
		case 0:
			pos := m.tp.Draw("tpos", len(data))
			data[pos] ^= byte(1 + m.tp.Draw("tbit", 255))
			_ = os.WriteFile(entry, data, 0o644)
			m.tainted[idx] = true
			m.s.Fired("tamper-flip")
		case 1:
			// tar members are 512-byte aligned: a cut at a block boundary leaves a well-formed shorter archive
			n := m.tp.Draw("tlen", len(data))
			if m.tp.Draw("tblock", 2) == 1 {
				n = 512 * m.tp.Draw("tblocks", len(data)/512+1)
			}
			_ = os.WriteFile(entry, data[:n], 0o644)
			m.tainted[idx] = true
			m.s.Fired("tamper-truncate")
		default:
			_ = os.Remove(entry)
			m.s.Fired("tamper-delete-entry")
		}
		m.s.Event("tamper tar of module %d", idx)
		return
	}
	st, _ := simfs.DirState(entry)
	var files []string
	for _, k := range simfs.SortedKeys(st) {
		if strings.HasPrefix(k, "files/") || strings.HasPrefix(k, "v1_buf_") {
			files = append(files, k)
		}
	}
	kind := m.tp.Draw("tkind", 10)
	m.s.Event("tamper kind %d on module %d", kind, idx)
	switch {
	case kind == 8:
		// the marker stays valid but pins another dependency digest
		f := filepath.Join(entry, "module.yaml")
		data, err := os.ReadFile(f)
		if err == nil && flipDepDigest(m.tp, data) {
			_ = os.WriteFile(f, data, 0o644)
			m.tainted[idx] = true
			m.s.Fired("tamper-dep-digest")
		}
	case kind == 9:
		// one flipped byte somewhere in the marker
		f := filepath.Join(entry, "module.yaml")
		data, err := os.ReadFile(f)
		if err == nil && len(data) > 0 {
			pos := m.tp.Draw("tpos", len(data))
			data[pos] ^= byte(1 + m.tp.Draw("tbit", 255))
			_ = os.WriteFile(f, data, 0o644)
			m.tainted[idx] = true
			m.s.Fired("tamper-marker-flip")
		}
	case kind == 0:
		_ = os.RemoveAll(entry)
		m.s.Fired("tamper-delete-entry")
	case kind == 1:
		_ = os.Remove(filepath.Join(entry, "module.yaml"))
		m.s.Fired("tamper-marker-delete")
	case kind == 2:
		_ = os.WriteFile(filepath.Join(entry, "module.yaml"), []byte("version: v0\n"), 0o644)
		m.s.Fired("tamper-marker-invalidate")
	case len(files) == 0:
		return
	case kind == 3:
		f := filepath.Join(entry, files[m.tp.Draw("tfile", len(files))])
		data, _ := os.ReadFile(f)
		if len(data) == 0 {
			return
		}
		pos := m.tp.Draw("tpos", len(data))
		data[pos] ^= byte(1 + m.tp.Draw("tbit", 255))
		_ = os.WriteFile(f, data, 0o644)
		m.tainted[idx] = true
		m.s.Fired("tamper-flip")
	case kind == 4:
		f := filepath.Join(entry, files[m.tp.Draw("tfile", len(files))])
		data, _ := os.ReadFile(f)
		if len(data) == 0 {
			return
		}
		_ = os.WriteFile(f, data[:m.tp.Draw("tlen", len(data))], 0o644)
		m.tainted[idx] = true
		m.s.Fired("tamper-truncate")
	case kind == 5:
		_ = os.Remove(filepath.Join(entry, files[m.tp.Draw("tfile", len(files))]))
		m.tainted[idx] = true
		m.s.Fired("tamper-delete")
	case kind == 6:
		name := tape.Pick(m.tp, "taddname", []string{"files/added.proto", "files/notes.txt", "files/LICENSE"})
		_ = os.MkdirAll(filepath.Dir(filepath.Join(entry, name)), 0o755)
		_ = os.WriteFile(filepath.Join(entry, name), []byte("syntax = \"proto3\";\n"), 0o644)
		m.tainted[idx] = true
		m.s.Fired("tamper-add")
	default:
		f := files[m.tp.Draw("tfile", len(files))]
		_ = os.Rename(filepath.Join(entry, f), filepath.Join(entry, filepath.Dir(f), "renamed.proto"))
		m.tainted[idx] = true
		m.s.Fired("tamper-rename")
	}
}

// ---- the run ----

// Run executes one simulated history of the module cache.
func Run(tp *tape.Tape, env *engine.Env) *engine.Outcome {
	s := sched.New(tp)
	s.KeepTrace = env.KeepTrace
	s.Progress = env.Progress
	s.MaxSteps = 6000
	hooks := simfs.NewHooks(s)
	hooks.RenameYield = true
	verifhook.SetHandler(hooks)
	defer verifhook.SetHandler(nil)
	m := &csim{tp: tp, s: s, env: env, hooks: hooks, tainted: map[int]bool{}, counters: map[string]int{}, crashStates: map[string]struct{}{}, cancels: map[string]context.CancelFunc{}, cancelled: map[string]bool{}}
	u, err := modgen.New(tp, modgen.Options{MaxModules: 4, MaxFiles: 4, AllowB4: true, Extras: true, BigOdds: 25})
	if err != nil {
		panic(err)
	}
	m.u = u
	if u.Big {
		// several hundred files in one module: every store is some thousand steps
		s.MaxSteps = 120000
		s.Probe("module-with-hundreds-of-files")
	}
	m.tar = tp.Draw("tar", 4) == 3
	m.root = filepath.Join(env.Scratch, "cache")
	m.modRel, m.comRel = "modules", "commits"
	if m.wired = !m.tar && tp.Draw("wired", 3) == 2; m.wired {
		// the layout of the command line: $HOME/.cache/buf/v3/{modules,commits,modulelocks}
		m.home = filepath.Join(env.Scratch, "h")
		m.root = filepath.Join(m.home, ".cache", "buf")
		m.modRel, m.comRel = filepath.Join("v3", "modules"), filepath.Join("v3", "commits")
		hooks.RawRoot, hooks.RawName = m.root, "w"
	}
	m.dir = filepath.Join(m.root, m.modRel)
	m.cdir = filepath.Join(m.root, m.comRel)
	for _, d := range []string{m.dir, m.cdir} {
		if err := os.MkdirAll(d, 0o755); err != nil {
			panic(err)
		}
	}
	raw, err := storageos.NewProvider().NewReadWriteBucket(m.dir)
	if err != nil {
		panic(err)
	}
	m.raw = raw
	craw, err := storageos.NewProvider().NewReadWriteBucket(m.cdir)
	if err != nil {
		panic(err)
	}
	m.craw = craw
	m.taintedCommit = map[int]bool{}
	m.table = simlock.NewTable(s)
	m.reg = &registry{m: m, calls: map[string]int{}}
	if m.wired {
		bufcli.VerifModuleDataDelegate, bufcli.VerifCommitDelegate, filelock.VerifNewLocker = m.reg, m.reg, m.wiredLocker
		defer func() {
			bufcli.VerifModuleDataDelegate, bufcli.VerifCommitDelegate, filelock.VerifNewLocker = nil, nil, nil
		}()
	}
	thread.SetParallelism(tape.Pick(tp, "par", []int{4, 1, 2}))
	s.YieldJobs = false

	// swarm configuration
	sw := &swarm{}
	mode := tp.Draw("mode", 5) // 0 = fault-free strict
	if mode != 0 {
		sw.faults = true
		sw.rate = tape.Pick(tp, "rate", []int{25, 12, 50})
		sw.budget = 1 + tp.Draw("budget", 4)
		all := map[string][]string{
			"put": {"put-err"}, "write": {"write-err", "short-write"}, "close": {"close-err", "rename-err"},
			"get": {"get-err"}, "stat": {"stat-err"}, "walk": {"walk-err"}, "delete": {"delete-err"},
			"lock": {"lock-err", "stall"}, "rlock": {"lock-err", "stall"}, "reg.get": {"registry-err", "registry-wrong-content"},
			"reg.commits": {"registry-err"},
		}
		sw.kinds = map[string][]string{}
		for _, k := range simfs.SortedKeys(all) {
			if tp.Draw("enable", 3) != 0 {
				sw.kinds[k] = all[k]
			}
		}
		if mode >= 3 {
			sw.crashRate = tape.Pick(tp, "crashrate", []int{40, 15, 80})
			sw.machine = tp.Draw("machine", 2) == 1
		}
		if tp.Draw("cancelmode", 3) == 2 {
			sw.cancelRate = tape.Pick(tp, "cancelrate", []int{30, 12, 60})
		}
	}
	m.sw = sw
	s.Policy = &policy{m: m}
	// slow tasks (sched.Sim.Laggard): the workers a cancelled process may have left behind, one slow process,
	// or the workers of one slow process - overtaken by the others for many steps in a row
	s.LagRate = tape.Pick(tp, "lagrate", []int{32, 8, 128})
	switch lag := tp.Draw("lagmode", 5); {
	case (lag == 1 && sw.faults) || (lag == 4 && sw.cancelRate > 0):
		if sw.cancelRate == 0 {
			sw.cancelRate = tape.Pick(tp, "cancelrate", []int{30, 12, 60})
		}
		sw.cancelWorkers = true
		s.Laggard = func(op sched.Op) bool { return op.Job != "" && m.cancelled[op.Proc] }
	case lag == 2:
		s.Laggard = func(op sched.Op) bool { return slowProc(op.Proc) }
	case lag == 3:
		s.Laggard = func(op sched.Op) bool { return op.Job != "" && slowProc(op.Proc) }
	}
	strict := !sw.faults
	snapshots := sw.faults || tp.Draw("snapff", 3) == 0
	if snapshots {
		s.BeforeRelease = m.snapshot
	}
	layout := "dir"
	if m.tar {
		layout = "tar"
	}
	s.Event("case layout=%s digest=%v modules=%d mode=%d", layout, u.DigestType, len(u.Modules), mode)

	epochs := 1 + tp.Draw("epochs", 3)
	useDaemon := tp.Draw("daemon", 2) == 1
	var daemon *procState
	for e := 0; e < epochs; e++ {
		nprocs := 1 + tp.Draw("nprocs", 3)
		var results []*procResult
		for i := 0; i < nprocs; i++ {
			results = append(results, m.spawn(m.drawScript(), strict))
		}
		if useDaemon {
			// a long-running process: the same provider and store objects live on across epochs
			if daemon == nil || daemon.proc.Dead {
				m.procSeq++
				daemon = m.newProcess(fmt.Sprintf("d%d", m.procSeq))
			}
			var ds []action
			for _, a := range m.drawScript() {
				if a.kind == "provide" || a.kind == "get" || a.kind == "wrongpin" {
					ds = append(ds, a)
				}
			}
			if len(ds) > 0 {
				m.spawnOn(daemon, ds, strict)
				m.s.Probe("long-running-process-epoch")
			}
		}
		s.Run()
		if s.Deadlocked {
			m.violate("no-deadlock", "epoch", "deadlock in epoch %d: parked %v", e, s.ParkedKeys())
			break
		}
		if s.StepLimit {
			break
		}
		// quiescent point
		if leaked := m.table.HeldLive(); len(leaked) > 0 {
			sort.Strings(leaked)
			m.violate("locks-released", "epoch", "after epoch %d all live processes finished but locks are still held: %v", e, leaked)
		}
		if strict {
			// registry asked at most once per (process, module)
			for _, k := range simfs.SortedKeys(m.reg.calls) {
				if m.reg.calls[k] > 1 {
					m.violate("fault-free-strict", "registry", "registry asked %d times for %s", m.reg.calls[k], k)
				}
			}
		}
		m.recover2(fmt.Sprintf("quiescent point after epoch %d", e))
		if sw.faults && e+1 < epochs && tp.Draw("tamper?", 2) == 1 {
			m.tamper()
			m.retaint()
			// tampered state is a state too
			m.recover2(fmt.Sprintf("after tampering following epoch %d", e))
		}
		// machine state carries over; dead processes stay dead
		s.ResetEpoch()
	}
	// bounded liveness after the last fault: a fresh simulated process with a healthy disk
	if !s.Deadlocked && !s.StepLimit {
		m.quiet = true
		all := make([]int, len(u.Modules))
		for i := range all {
			all[i] = i
		}
		anyTaint := len(m.tainted) > 0
		before := s.Steps
		res := m.spawn([]action{{kind: "provide", mods: all}}, false)
		s.Run()
		if s.Deadlocked {
			m.violate("later-store-repairs", "final", "final fault-free provide deadlocked: parked %v", s.ParkedKeys())
		} else if !anyTaint {
			for i := range u.Modules {
				if !res.provided[i] {
					m.violate("later-store-repairs", "final", "after the last fault a fresh process could not obtain module %d within %d steps", i, s.Steps-before)
				}
			}
		}
		m.counters["final_provide_steps"] += s.Steps - before
	}
	s.BeforeRelease = nil
	s.Drain()
	out := engine.FromSim(s)
	out.Counters = m.counters
	var cs []string
	for k := range m.crashStates {
		cs = append(cs, k)
	}
	out.Distinct = map[string][]string{"crash-state": cs}
	out.Probes["lock-acquired"] += m.table.Acquired
	out.Sample = map[string]any{
		"layout": layout, "digest": u.DigestType.String(), "modules": len(u.Modules), "mode": mode, "epochs": epochs,
		"steps": s.Steps, "crash_states_checked": m.counters["crash_states_checked"], "faults": s.Faults, "preemptions": s.Preempts,
	}
	return out
}

// recover2 copies the live directory and runs the recovery oracles on the copy.
func (m *csim) recover2(when string) {
	st, err := simfs.DirState(m.root)
	if err != nil {
		return
	}
	h := simfs.StateHash(st)
	if _, seen := m.crashStates[h]; seen && len(m.tainted) == 0 && len(m.taintedCommit) == 0 {
		return
	}
	m.crashStates[h] = struct{}{}
	m.snapSeq++
	copyDir := filepath.Join(m.env.Scratch, fmt.Sprintf("snap%d", m.snapSeq))
	if err := simfs.CopyDir(m.root, copyDir); err != nil {
		panic(err)
	}
	defer os.RemoveAll(copyDir)
	m.counters["quiescent_states_checked"]++
	m.recover(copyDir, when, "quiescent")
}

var _ = fs.ErrNotExist
