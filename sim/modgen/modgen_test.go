package modgen

import (
	"context"
	"testing"

	"github.com/bufbuild/buf/private/pkg/storage"
	"github.com/bufbuild/verif/tape"
)

func TestUniverse(t *testing.T) {
	for run := uint64(0); run < 30; run++ {
		tp := tape.New(1, "modgen", run)
		u, err := New(tp, Options{MaxModules: 3, MaxFiles: 4, AllowB4: true, Extras: true})
		if err != nil {
			t.Fatal(run, err)
		}
		ctx := context.Background()
		var idx []int
		for i := range u.Modules {
			idx = append(idx, i)
		}
		datas, err := u.Provider.GetModuleDatasForModuleKeys(ctx, u.Keys(idx))
		if err != nil {
			t.Fatal(run, err)
		}
		for i, d := range datas {
			b, err := d.Bucket()
			if err != nil {
				t.Fatal(run, i, err)
			}
			paths, _ := storage.AllPaths(ctx, b, "")
			if len(paths) != len(u.Modules[i].ModuleFiles) {
				t.Fatalf("run %d module %d: paths %v vs %v", run, i, paths, u.Modules[i].ModuleFiles)
			}
			deps, err := d.DepModuleKeys()
			if err != nil {
				t.Fatal(err)
			}
			if len(deps) != len(u.Modules[i].DepKeys) {
				t.Fatalf("run %d module %d: deps %v vs %v", run, i, deps, u.Modules[i].DepKeys)
			}
		}
	}
}
