// Package modgen draws registry content (modules with pinned keys) from the
// tape, together with the reference content the oracles compare against.
package modgen

import (
	"context"
	"fmt"
	"sort"

	"github.com/bufbuild/buf/private/bufpkg/bufmodule"
	"github.com/bufbuild/buf/private/bufpkg/bufmodule/bufmoduletesting"
	"github.com/bufbuild/buf/private/bufpkg/bufparse"
	"github.com/bufbuild/verif/tape"
	"github.com/google/uuid"
)

// Module is one generated registry module and its reference content.
type Module struct {
	Name     string
	CommitID uuid.UUID
	Files    map[string][]byte // every file given to the registry (module and non-module files)
	// ModuleFiles is the subset that belongs to the module (.proto, LICENSE, doc file).
	ModuleFiles map[string][]byte
	Deps        []int // indices of modules this one imports
	BufYAML     []byte
	BufLock     []byte
	Key         bufmodule.ModuleKey
	DepKeys     []string // ModuleKey.String() of deps, sorted
}

// Universe is a generated registry.
type Universe struct {
	// Big: the first module has several hundred files
	Big bool
	Modules    []*Module
	Provider   bufmoduletesting.OmniProvider
	DigestType bufmodule.DigestType
}

// Options bound the generator.
type Options struct {
	MaxModules int
	MaxFiles   int
	AllowB4    bool
	Extras     bool // LICENSE, README.md, junk files
	// BigOdds > 0: one universe in BigOdds gives its first module 257-420 more (tiny) files - more than
	// any batch, chunk or worker pool of a copy holds at once
	BigOdds int
}

func uuidFromTape(t *tape.Tape, index int) uuid.UUID {
	b := t.Bytes("uuid", 16)
	var u uuid.UUID
	copy(u[:], b)
	u[15] = byte(index) // unique whatever the tape says (shrinking zeroes draws)
	u[6] = (u[6] & 0x0f) | 0x40
	u[8] = (u[8] & 0x3f) | 0x80
	return u
}

// New draws a universe.
func New(t *tape.Tape, o Options) (*Universe, error) {
	n := t.Range("nmods", 1, o.MaxModules)
	u := &Universe{DigestType: bufmodule.DigestTypeB5}
	if o.AllowB4 && t.Draw("b4", 4) == 3 {
		u.DigestType = bufmodule.DigestTypeB4
	}
	var datas []bufmoduletesting.ModuleData
	for i := 0; i < n; i++ {
		m := &Module{
			Name:        fmt.Sprintf("buf.build/acme/m%d", i),
			CommitID:    uuidFromTape(t, i),
			Files:       map[string][]byte{},
			ModuleFiles: map[string][]byte{},
		}
		nf := t.Range("mfiles", 1, o.MaxFiles)
		for j := 0; j < nf; j++ {
			path := fmt.Sprintf("m%d/f%d.proto", i, j)
			switch t.Draw("nest", 6) {
			case 2:
				path = fmt.Sprintf("m%d/sub/f%d.proto", i, j)
			case 3:
				path = fmt.Sprintf("m%d/two  spaces/f%d.proto", i, j)
			case 4:
				path = fmt.Sprintf("m%d/ünï cødé/f %d.proto", i, j)
			}
			imp := ""
			if i > 0 && t.Draw("dep", 2) == 1 {
				d := t.Draw("depmod", i)
				// import the first file of module d
				first := sortedKeys(u.Modules[d].ModuleFiles, ".proto")[0]
				imp = fmt.Sprintf("import \"%s\";\n", first)
				if !contains(m.Deps, d) {
					m.Deps = append(m.Deps, d)
				}
			}
			content := fmt.Sprintf("syntax = \"proto3\";\npackage m%d.f%d;\n%s// nonce %d\nmessage M%d_%d { string s = 1; }\n", i, j, imp, t.Draw("nonce", 100000), i, j)
			m.Files[path] = []byte(content)
			m.ModuleFiles[path] = []byte(content)
		}
		if i == 0 && o.BigOdds > 0 && t.Draw("bigmodule", o.BigOdds) == o.BigOdds-1 {
			u.Big = true
			for j, nbig := 0, 257+t.Draw("bigfiles", 164); j < nbig; j++ {
				path := fmt.Sprintf("m0/big/g%03d.proto", j)
				content := fmt.Sprintf("syntax = \"proto3\";\npackage m0.g%d;\n", j)
				m.Files[path] = []byte(content)
				m.ModuleFiles[path] = []byte(content)
			}
		}
		if o.Extras {
			if t.Draw("license", 3) == 1 {
				d := []byte(fmt.Sprintf("license of m%d #%d\n", i, t.Draw("nonce", 1000)))
				m.Files["LICENSE"] = d
				m.ModuleFiles["LICENSE"] = d
			}
			if t.Draw("readme", 3) == 1 {
				d := []byte(fmt.Sprintf("# readme of m%d\n", i))
				m.Files["README.md"] = d
				m.ModuleFiles["README.md"] = d
			}
			if t.Draw("junk", 3) == 1 {
				m.Files[fmt.Sprintf("m%d/notes.txt", i)] = []byte("junk")
			}
		}
		sort.Ints(m.Deps)
		md := bufmoduletesting.ModuleData{Name: m.Name, CommitID: m.CommitID, PathToData: m.Files}
		if u.DigestType == bufmodule.DigestTypeB4 {
			m.BufYAML = []byte(fmt.Sprintf("version: v1\nname: %s\n", m.Name))
			m.BufLock = []byte("version: v1\n")
			if t.Draw("emptylock", 4) == 3 {
				// an existing but empty buf.lock is still part of the b4 digest
				m.BufLock = []byte{}
			}
			yo, err := bufmodule.NewObjectData("buf.yaml", m.BufYAML)
			if err != nil {
				return nil, err
			}
			lo, err := bufmodule.NewObjectData("buf.lock", m.BufLock)
			if err != nil {
				return nil, err
			}
			md.BufYAMLObjectData, md.BufLockObjectData = yo, lo
		}
		datas = append(datas, md)
		u.Modules = append(u.Modules, m)
	}
	p, err := bufmoduletesting.NewOmniProvider(datas...)
	if err != nil {
		return nil, err
	}
	u.Provider = p
	refs := make([]bufparse.Ref, len(u.Modules))
	for i, m := range u.Modules {
		fn, err := bufparse.ParseFullName(m.Name)
		if err != nil {
			return nil, err
		}
		ref, err := bufparse.NewRef(fn.Registry(), fn.Owner(), fn.Name(), "")
		if err != nil {
			return nil, err
		}
		refs[i] = ref
	}
	keys, err := p.GetModuleKeysForModuleRefs(context.Background(), refs, u.DigestType)
	if err != nil {
		return nil, err
	}
	for i, m := range u.Modules {
		m.Key = keys[i]
		// force digest computation now (pure; outside any simulated task)
		if _, err := m.Key.Digest(); err != nil {
			return nil, err
		}
	}
	for _, m := range u.Modules {
		// dependency keys are transitive
		seen := map[int]bool{}
		var visit func(i int)
		visit = func(i int) {
			for _, d := range u.Modules[i].Deps {
				if !seen[d] {
					seen[d] = true
					visit(d)
				}
			}
		}
		for _, d := range m.Deps {
			if !seen[d] {
				seen[d] = true
				visit(d)
			}
		}
		for d := range seen {
			m.DepKeys = append(m.DepKeys, u.Modules[d].Key.String())
		}
		sort.Strings(m.DepKeys)
	}
	return u, nil
}

// Keys returns the module keys of the given module indices.
func (u *Universe) Keys(idx []int) []bufmodule.ModuleKey {
	out := make([]bufmodule.ModuleKey, len(idx))
	for i, j := range idx {
		out[i] = u.Modules[j].Key
	}
	return out
}

// ByCommit finds the module for a key.
func (u *Universe) ByCommit(id uuid.UUID) *Module {
	for _, m := range u.Modules {
		if m.CommitID == id {
			return m
		}
	}
	return nil
}

func sortedKeys(m map[string][]byte, suffix string) []string {
	var out []string
	for k := range m {
		if len(k) >= len(suffix) && k[len(k)-len(suffix):] == suffix {
			out = append(out, k)
		}
	}
	sort.Strings(out)
	return out
}

func contains(xs []int, x int) bool {
	for _, y := range xs {
		if x == y {
			return true
		}
	}
	return false
}
