// Package wsgen draws self-contained proto workspaces from the tape and returns,
// next to the files, the model the oracles need (import graph, owning module,
// which imports are used, targeting), so that oracles never derive facts from
// buf's own output. It is a workload generator: the deciding dimension of the
// engines that use it is the schedule / fault space.
package wsgen

import (
	"fmt"
	"sort"
	"strings"

	"github.com/bufbuild/verif/tape"
	"github.com/google/uuid"
)

// Import is one import statement of a generated file.
type Import struct {
	Path   string
	Public bool
	Used   bool
	WKT    bool
}

// File is one generated .proto file and what is known about it by construction.
type File struct {
	Path              string
	Module            int
	Package           string
	Syntax            string // proto2 | proto3 | editions | "" (unspecified)
	Imports           []Import
	Content           string
	Message           string // fully-qualified name of the file's main message
	SyntaxUnspecified bool
	HasService        bool
	// IsOptions marks the file that declares the workspace's custom message options;
	// HasCustomOptions is set on files whose main message carries both of them.
	IsOptions bool
	// OptionScope (options file): "" when the options are declared by a file-level extend block,
	// "OptsCarrier." when the extend block sits inside that message
	OptionScope      string
	HasCustomOptions bool
	// ErrorLine/ErrorColumn are set when a compile error was planted whose position is known by
	// construction (1-based); PlantKind names the kind of planted error.
	ErrorLine, ErrorColumn int
	PlantKind              string
}

// Module is one generated module.
type Module struct {
	Index    int
	Name     string // full name or ""
	CommitID uuid.UUID
	Dirs     []string
	Files    []*File
	Extra    map[string]string // non-proto files (LICENSE, README.md, junk)
	// targeting
	Targeted     bool
	TargetPaths  []string
	ExcludePaths []string
	// ProtoFileTarget targets one file (a proto-file reference), optionally with the other
	// files of its package in the same module
	ProtoFileTarget     string
	IncludePackageFiles bool
}

// Workspace is a generated workspace.
type Workspace struct {
	Modules []*Module
	Files   map[string]*File
	// SuppliedWKT lists WKT paths the workspace itself supplies.
	SuppliedWKT map[string]bool
	Planted     *File
	// OptionsFile declares two message options: src_note (number 50001, source retention)
	// and rt_note (50002, runtime retention); nil when the workspace has none.
	OptionsFile *File
}

// Field numbers of the custom message options.
const (
	SourceOptionNumber  = 50001
	RuntimeOptionNumber = 50002
)

// Options bound the generator.
type Options struct {
	MaxModules int
	MaxFiles   int
	Targeting  bool
	PlantError bool
	SupplyWKT  func(path string) string // returns built-in content for a WKT path
	NoEditions bool
	LintClean  bool
	// UnusedHeavy adds files with many unused imports: the compiler then emits many warnings
	// from concurrently linking files.
	UnusedHeavy bool
	// ForceSupplyWKT makes the workspace always supply its own copy of a well-known type.
	ForceSupplyWKT bool
	// CustomOptions allows a file declaring custom message options (one with source retention).
	CustomOptions bool
}

var wktPaths = []string{"google/protobuf/timestamp.proto", "google/protobuf/duration.proto", "google/protobuf/empty.proto", "google/protobuf/any.proto",
	"google/protobuf/type.proto", "google/protobuf/api.proto", "google/protobuf/source_context.proto", "google/protobuf/struct.proto", "google/protobuf/any.proto", "google/protobuf/type.proto"}
var wktTypes = map[string]string{
	"google/protobuf/timestamp.proto":      "google.protobuf.Timestamp",
	"google/protobuf/duration.proto":       "google.protobuf.Duration",
	"google/protobuf/empty.proto":          "google.protobuf.Empty",
	"google/protobuf/any.proto":            "google.protobuf.Any",
	"google/protobuf/type.proto":           "google.protobuf.Type",
	"google/protobuf/api.proto":            "google.protobuf.Api",
	"google/protobuf/source_context.proto": "google.protobuf.SourceContext",
	"google/protobuf/struct.proto":         "google.protobuf.Struct",
}

// builtinWKTImports: what the well-known types import among themselves (public knowledge about
// the standard files, not derived from buf). A copy supplied by the workspace imports the same.
var builtinWKTImports = map[string][]string{
	"google/protobuf/type.proto": {"google/protobuf/any.proto", "google/protobuf/source_context.proto"},
	"google/protobuf/api.proto":  {"google/protobuf/source_context.proto", "google/protobuf/type.proto"},
}

// New draws a workspace.
func New(t *tape.Tape, o Options) *Workspace {
	ws := &Workspace{Files: map[string]*File{}, SuppliedWKT: map[string]bool{}}
	nm := t.Range("ws.nmods", 1, o.MaxModules)
	total := t.Range("ws.nfiles", max(2, nm), o.MaxFiles)
	for i := 0; i < nm; i++ {
		m := &Module{Index: i, Extra: map[string]string{}, Targeted: true}
		if t.Draw("ws.named", 3) != 0 {
			m.Name = fmt.Sprintf("buf.build/acme/w%d", i)
			b := t.Bytes("ws.commit", 16)
			copy(m.CommitID[:], b)
			m.CommitID[15] = byte(i)
			m.CommitID[6] = (m.CommitID[6] & 0x0f) | 0x40
			m.CommitID[8] = (m.CommitID[8] & 0x3f) | 0x80
		}
		nd := t.Range("ws.ndirs", 1, 3)
		// sibling directories whose names string-extend each other (v1, v1beta1) separate
		// path-wise from string-wise prefix handling of --path values
		versions := []string{"v1", "v1beta1", "v1beta"}
		for d := 0; d < nd; d++ {
			if t.Draw("ws.sibling", 2) == 1 && d > 0 {
				m.Dirs = append(m.Dirs, fmt.Sprintf("w%d/d0/%s", i, versions[d%len(versions)]))
			} else {
				m.Dirs = append(m.Dirs, fmt.Sprintf("w%d/d%d/v1", i, d))
			}
		}
		ws.Modules = append(ws.Modules, m)
	}
	var order []*File
	if o.CustomOptions && t.Draw("ws.custopts", 3) == 2 {
		m := ws.Modules[0]
		dir := m.Dirs[0]
		f := &File{Module: 0, Path: dir + "/opts.proto", Syntax: "proto3", IsOptions: true}
		f.Package = strings.ReplaceAll(dir, "/", ".")
		f.Message = f.Package + ".OptsCarrier"
		f.OptionScope = tape.Pick(t, "ws.optscope", []string{"", "OptsCarrier."})
		f.Imports = []Import{{Path: "google/protobuf/descriptor.proto", WKT: true, Used: true}}
		ws.OptionsFile = f
		order = append(order, f)
		m.Files = append(m.Files, f)
		ws.Files[f.Path] = f
	}
	for j := 0; j < total; j++ {
		mi := j % nm
		if j >= nm {
			mi = t.Draw("ws.fmod", nm)
		}
		m := ws.Modules[mi]
		dir := m.Dirs[t.Draw("ws.fdir", len(m.Dirs))]
		// a tape-chosen leading letter decouples the sort order of file names from the import order
		f := &File{Module: mi, Path: fmt.Sprintf("%s/%c%d.proto", dir, 'a'+rune(t.Draw("ws.letter", 6)), j)}
		if !o.LintClean && t.Draw("ws.oddname", 10) == 9 {
			// names some tools treat specially: AppleDouble prefix, leading dot, upper case, a space
			f.Path = fmt.Sprintf("%s/%s%d.proto", dir, tape.Pick(t, "ws.oddnamekind", []string{"._a", ".h", "Upper", "sp ace"}), j)
		}
		f.Package = strings.ReplaceAll(dir, "/", ".")
		f.Message = f.Package + fmt.Sprintf(".M%d", j)
		if !o.LintClean && t.Draw("ws.nopackage", 8) == 7 {
			// a file without a package statement: its types live in the unnamed package
			f.Package = ""
			f.Message = fmt.Sprintf("M%d", j)
		}
		switch t.Draw("ws.syntax", 8) {
		case 1:
			f.Syntax = "proto2"
		case 2:
			if o.NoEditions {
				f.Syntax = "proto3"
			} else {
				f.Syntax = "editions"
			}
		case 3:
			if o.LintClean {
				f.Syntax = "proto3"
			} else {
				f.Syntax = ""
				f.SyntaxUnspecified = true
			}
		default:
			f.Syntax = "proto3"
		}
		// imports of earlier files (a DAG by construction)
		// module dependencies must stay acyclic: import only from this or lower-numbered modules
		var cands []*File
		for _, c := range order {
			if c.Module <= mi {
				cands = append(cands, c)
			}
		}
		if len(cands) > 0 {
			ni := t.Draw("ws.nimports", min(4, len(cands)+1))
			seen := map[string]bool{}
			for k := 0; k < ni; k++ {
				tgt := cands[t.Draw("ws.imp", len(cands))]
				if seen[tgt.Path] {
					continue
				}
				seen[tgt.Path] = true
				imp := Import{Path: tgt.Path, Used: t.Draw("ws.used", 5) != 0}
				if o.LintClean {
					imp.Used = true
				} else {
					imp.Public = t.Draw("ws.public", 6) == 5
				}
				f.Imports = append(f.Imports, imp)
			}
		}
		if t.Draw("ws.wkt", 3) == 1 {
			p := tape.Pick(t, "ws.wktpath", wktPaths)
			imp := Import{Path: p, WKT: true, Used: t.Draw("ws.wktused", 4) != 0}
			if o.LintClean {
				imp.Used = true
			}
			f.Imports = append(f.Imports, imp)
		}
		f.HasService = t.Draw("ws.service", 4) == 1
		order = append(order, f)
		m.Files = append(m.Files, f)
		ws.Files[f.Path] = f
	}
	if o.UnusedHeavy {
		m := ws.Modules[0]
		dir := m.Dirs[0]
		var leaves []*File
		k := 4 + t.Draw("ws.leaves", 4)
		big := t.Draw("ws.heavybig", 2) == 1
		if big {
			k = 16 + t.Draw("ws.leaves2", 12)
		}
		for j := 0; j < k; j++ {
			f := &File{Module: 0, Path: fmt.Sprintf("%s/leaf%d.proto", dir, j), Syntax: "proto3"}
			f.Package = strings.ReplaceAll(dir, "/", ".")
			f.Message = f.Package + fmt.Sprintf(".Leaf%d", j)
			leaves = append(leaves, f)
		}
		heavy := 5 + t.Draw("ws.heavy", 6)
		if big {
			heavy = 20 + t.Draw("ws.heavy2", 20)
		}
		var hs []*File
		for j := 0; j < heavy; j++ {
			f := &File{Module: 0, Path: fmt.Sprintf("%s/heavy%d.proto", dir, j), Syntax: "proto3"}
			f.Package = strings.ReplaceAll(dir, "/", ".")
			f.Message = f.Package + fmt.Sprintf(".Heavy%d", j)
			for _, l := range leaves {
				f.Imports = append(f.Imports, Import{Path: l.Path, Used: false})
			}
			hs = append(hs, f)
		}
		for _, f := range append(leaves, hs...) {
			order = append(order, f)
			m.Files = append(m.Files, f)
			ws.Files[f.Path] = f
		}
	}
	if o.PlantError {
		var cands []*File
		for _, f := range order {
			if !f.IsOptions {
				cands = append(cands, f)
			}
		}
		ws.Planted = cands[t.Draw("ws.plant", len(cands))]
	}
	for _, f := range order {
		render(t, ws, f, o)
	}
	// a workspace may supply its own copy of a well-known type
	if o.SupplyWKT != nil && (t.Draw("ws.supplywkt", 5) == 4 || o.ForceSupplyWKT) {
		p := tape.Pick(t, "ws.supplypath", wktPaths)
		// module 0: every other module may depend on it without creating a module cycle
		m := ws.Modules[0]
		// the vendored copy differs from the built-in one (a trailing comment), so that a silent
		// fall-back to the built-in copy changes the descriptor's source info as well
		wf := &File{Module: m.Index, Path: p, Package: "google.protobuf", Syntax: "proto3", Content: o.SupplyWKT(p) + "\n// vendored copy of " + p + "\n", Message: wktTypes[p]}
		for _, imp := range builtinWKTImports[p] {
			wf.Imports = append(wf.Imports, Import{Path: imp, WKT: true, Used: true})
		}
		m.Files = append(m.Files, wf)
		ws.Files[p] = wf
		ws.SuppliedWKT[p] = true
	}
	for _, m := range ws.Modules {
		if t.Draw("ws.license", 4) == 1 {
			m.Extra["LICENSE"] = fmt.Sprintf("license %d\n", m.Index)
		}
		if t.Draw("ws.readme", 4) == 1 {
			m.Extra["README.md"] = fmt.Sprintf("# module %d\n", m.Index)
		}
		if t.Draw("ws.junk", 4) == 1 {
			m.Extra[m.Dirs[0]+"/notes.txt"] = "junk\n"
		}
	}
	if o.Targeting {
		ws.drawTargeting(t)
	}
	return ws
}

func (ws *Workspace) drawTargeting(t *tape.Tape) {
	if len(ws.Modules) > 1 {
		any := false
		for _, m := range ws.Modules {
			m.Targeted = t.Draw("ws.targeted", 3) != 0
			any = any || m.Targeted
		}
		if !any {
			ws.Modules[0].Targeted = true
		}
	}
	for _, m := range ws.Modules {
		if !m.Targeted || len(m.Files) == 0 {
			continue
		}
		switch t.Draw("ws.pathsel", 5) {
		case 4:
			m.ProtoFileTarget = m.Files[t.Draw("ws.pfile", len(m.Files))].Path
			m.IncludePackageFiles = t.Draw("ws.pkgfiles", 2) == 1
		case 1:
			// --path: one or two directories or files
			m.TargetPaths = []string{ws.pickPath(t, m)}
			if t.Draw("ws.twopaths", 2) == 1 {
				if a, b := prefixSiblings(m.Dirs); a != "" && t.Draw("ws.prefixpair", 2) == 1 {
					// two directories of which one is a STRING prefix of the other without containing it
					// (v1 and v1beta1): both are targets, neither covers the other
					m.TargetPaths = []string{a, b}
				} else if p2 := ws.pickPath(t, m); p2 != m.TargetPaths[0] {
					m.TargetPaths = append(m.TargetPaths, p2)
				}
			}
		case 2:
			m.ExcludePaths = []string{ws.pickPath(t, m)}
		case 3:
			m.TargetPaths = []string{ws.pickPath(t, m)}
			e := ws.pickPath(t, m)
			// no --path may lie inside an --exclude-path
			if !under(e, m.TargetPaths[0]) {
				m.ExcludePaths = []string{e}
			}
		}
	}
	// at least one target file must remain
	if len(ws.Targets()) == 0 {
		for _, m := range ws.Modules {
			m.TargetPaths, m.ExcludePaths, m.ProtoFileTarget = nil, nil, ""
			m.Targeted = true
		}
	}
}

func (ws *Workspace) pickPath(t *tape.Tape, m *Module) string {
	if t.Draw("ws.pathkind", 2) == 0 {
		return m.Dirs[t.Draw("ws.pathdir", len(m.Dirs))]
	}
	return m.Files[t.Draw("ws.pathfile", len(m.Files))].Path
}

// prefixSiblings returns two directories a, b with b string-extending a but not lying below it.
func prefixSiblings(dirs []string) (string, string) {
	sorted := append([]string(nil), dirs...)
	sort.Strings(sorted)
	for _, a := range sorted {
		for _, b := range sorted {
			if a != b && strings.HasPrefix(b, a) && !under(a, b) {
				return a, b
			}
		}
	}
	return "", ""
}

func under(prefix, p string) bool {
	return p == prefix || strings.HasPrefix(p, prefix+"/")
}

// IsTarget applies the documented targeting rule to a file.
func (ws *Workspace) IsTarget(f *File) bool {
	m := ws.Modules[f.Module]
	if !m.Targeted {
		return false
	}
	if m.ProtoFileTarget != "" {
		if f.Path == m.ProtoFileTarget {
			return true
		}
		tf := ws.Files[m.ProtoFileTarget]
		return m.IncludePackageFiles && tf != nil && tf.Package != "" && tf.Package == f.Package
	}
	in := len(m.TargetPaths) == 0
	for _, p := range m.TargetPaths {
		if under(p, f.Path) {
			in = true
		}
	}
	for _, p := range m.ExcludePaths {
		if under(p, f.Path) {
			return false
		}
	}
	return in
}

// Targets returns the sorted target file paths.
func (ws *Workspace) Targets() []string {
	var out []string
	for p, f := range ws.Files {
		if ws.IsTarget(f) {
			out = append(out, p)
		}
	}
	sort.Strings(out)
	return out
}

// Closure returns the targets plus everything they transitively import (WKTs included).
func (ws *Workspace) Closure() map[string]bool {
	out := map[string]bool{}
	var visit func(p string)
	visit = func(p string) {
		if out[p] {
			return
		}
		out[p] = true
		if f := ws.Files[p]; f != nil {
			for _, imp := range f.Imports {
				visit(imp.Path)
			}
		} else {
			// a built-in well-known type: it brings its own imports (which the workspace may supply)
			for _, imp := range builtinWKTImports[p] {
				visit(imp)
			}
		}
	}
	for _, p := range ws.Targets() {
		visit(p)
	}
	return out
}

// ModuleFiles returns every file of a module (proto and extra) as a path->bytes map.
func (m *Module) ModuleFiles() map[string][]byte {
	out := map[string][]byte{}
	for _, f := range m.Files {
		out[f.Path] = []byte(f.Content)
	}
	for p, c := range m.Extra {
		out[p] = []byte(c)
	}
	return out
}

// exports returns the files whose symbols an import of path makes visible:
// the file itself and everything it transitively imports publicly.
func (ws *Workspace) exports(path string) map[string]bool {
	out := map[string]bool{}
	var visit func(p string)
	visit = func(p string) {
		if out[p] {
			return
		}
		out[p] = true
		if f := ws.Files[p]; f != nil {
			for _, imp := range f.Imports {
				if imp.Public {
					visit(imp.Path)
				}
			}
		}
	}
	visit(path)
	return out
}

func render(t *tape.Tape, ws *Workspace, f *File, o Options) {
	if f.IsOptions && f.OptionScope != "" {
		// the same two options, declared inside a message: no file of the workspace has a top-level extend block
		f.Content = "syntax = \"proto3\";\n\npackage " + f.Package + ";\n\nimport \"google/protobuf/descriptor.proto\";\n\n" +
			"message OptsCarrier {\n  string name = 1;\n  extend google.protobuf.MessageOptions {\n" +
			fmt.Sprintf("    string src_note = %d [retention = RETENTION_SOURCE];\n    string rt_note = %d;\n  }\n}\n", SourceOptionNumber, RuntimeOptionNumber)
		return
	}
	if f.IsOptions {
		f.Content = "syntax = \"proto3\";\n\npackage " + f.Package + ";\n\nimport \"google/protobuf/descriptor.proto\";\n\n" +
			"extend google.protobuf.MessageOptions {\n" +
			fmt.Sprintf("  string src_note = %d [retention = RETENTION_SOURCE];\n  string rt_note = %d;\n}\n\n", SourceOptionNumber, RuntimeOptionNumber) +
			"message OptsCarrier {\n  string name = 1;\n}\n"
		return
	}
	var b strings.Builder
	line := 1
	w := func(s string) {
		b.WriteString(s)
		line += strings.Count(s, "\n")
	}
	if !o.LintClean && t.Draw("ws.header", 3) == 1 {
		w(fmt.Sprintf("// File %s.\n//\n// Generated for a simulation run.\n\n", f.Path))
	}
	switch f.Syntax {
	case "proto2":
		w("syntax = \"proto2\";\n\n")
	case "proto3":
		w("syntax = \"proto3\";\n\n")
	case "editions":
		w("edition = \"2023\";\n\n")
	}
	if f.Package != "" {
		w("package " + f.Package + ";\n\n")
	}
	if !o.LintClean && t.Draw("ws.fileopts", 3) == 2 && f.Package != "" {
		w(fmt.Sprintf("option java_package = \"com.%s\";\noption go_package = \"example.com/%s;pb\";\noption java_multiple_files = true;\n\n", f.Package, strings.ReplaceAll(f.Package, ".", "/")))
	}
	for _, imp := range f.Imports {
		if imp.Public {
			w("import public \"" + imp.Path + "\";\n")
		} else {
			w("import \"" + imp.Path + "\";\n")
		}
	}
	plantKind := ""
	if ws.Planted == f {
		plantKind = tape.Pick(t, "ws.plantkind", []string{"undefined-type", "duplicate-number", "syntax", "duplicate-message", "missing-import", "undefined-type"})
		f.PlantKind = plantKind
	}
	if plantKind == "missing-import" {
		w(fmt.Sprintf("import \"does/not/exist_%d.proto\";\n", t.Draw("ws.nonce", 1000)))
	}
	if len(f.Imports) > 0 || plantKind == "missing-import" {
		w("\n")
	}
	label := ""
	if f.Syntax == "proto2" || f.Syntax == "" {
		label = "optional "
	}
	proto2Extension := false
	short := f.Message[strings.LastIndex(f.Message, ".")+1:]
	if o.LintClean {
		w("// " + short + " is a message.\n")
	} else if t.Draw("ws.msgcomment", 2) == 1 {
		w("// " + short + " carries data.\n")
	}
	w("message " + short + " {\n")
	num := 1
	w(fmt.Sprintf("  %sstring name = %d;\n", label, num))
	num++
	if t.Draw("ws.extrafield", 2) == 1 {
		w(fmt.Sprintf("  %sint64 count = %d; // trailing comment %d\n", label, num, t.Draw("ws.nonce", 1000)))
		num++
	}
	// decide which files' types are referenced, then credit imports the way a
	// linker does: the first import (in order) that makes the file visible.
	rpcType := "" // an imported type that a service method may take as its request
	credited := make([]bool, len(f.Imports))
	for i, imp := range f.Imports {
		if !imp.Used {
			continue
		}
		var typ, typFile string
		if imp.WKT {
			typ, typFile = wktTypes[imp.Path], imp.Path
		} else {
			typ, typFile = ws.Files[imp.Path].Message, imp.Path
			for _, inner := range ws.Files[imp.Path].Imports {
				if inner.Public && !inner.WKT && t.Draw("ws.viapublic", 2) == 1 {
					typ, typFile = ws.Files[inner.Path].Message, inner.Path
					break
				}
			}
		}
		for j, other := range f.Imports {
			if other.Path == typFile || (!other.WKT && ws.exports(other.Path)[typFile]) {
				credited[j] = true
				break
			}
		}
		// the imported type is used in one of several ways; each of them makes the import a used one
		form := "field"
		if !o.LintClean {
			form = tape.Pick(t, "ws.refform", []string{"field", "repeated", "map", "oneof", "field"})
		}
		switch form {
		case "repeated":
			w(fmt.Sprintf("  repeated .%s ref_%d = %d;\n", typ, i, num))
		case "map":
			w(fmt.Sprintf("  map<string, .%s> ref_%d = %d;\n", typ, i, num))
		case "oneof":
			w(fmt.Sprintf("  oneof ref_%d_choice {\n    .%s ref_%d = %d;\n  }\n", i, typ, i, num))
		default:
			w(fmt.Sprintf("  %s.%s ref_%d = %d;\n", label, typ, i, num))
		}
		num++
		if rpcType == "" {
			rpcType = "." + typ
		}
	}
	for i := range f.Imports {
		f.Imports[i].Used = credited[i]
	}
	if of := ws.OptionsFile; of != nil {
		for i, imp := range f.Imports {
			// (only where the import is used anyway: the options then do not change which imports are unused)
			if imp.Path == of.Path && credited[i] && t.Draw("ws.useopts", 3) != 0 {
				w(fmt.Sprintf("  option (%s.%ssrc_note) = \"source note of %s\";\n  option (%s.%srt_note) = \"runtime note of %s\";\n", of.Package, of.OptionScope, short, of.Package, of.OptionScope, short))
				f.HasCustomOptions = true
			}
		}
	}
	if !o.LintClean && t.Draw("ws.rich", 3) == 2 {
		// more descriptor shapes: map, oneof, nested message, reserved ranges and names
		w(fmt.Sprintf("  map<string, int64> counts = %d;\n", num))
		num++
		w(fmt.Sprintf("  oneof choice {\n    string text = %d;\n    int32 code = %d;\n  }\n", num, num+1))
		num += 2
		w(fmt.Sprintf("  message Inner {\n    %sbool flag = 1;\n  }\n  %sInner inner = %d;\n", label, label, num))
		num++
		if f.Syntax == "editions" {
			w(fmt.Sprintf("  reserved %d to %d;\n  reserved old_name, older_name;\n", num+10, num+12))
		} else {
			w(fmt.Sprintf("  reserved %d to %d;\n  reserved \"old_name\", \"older_name\";\n", num+10, num+12))
		}
	}
	if !o.LintClean && t.Draw("ws.shapes", 3) == 2 {
		// syntax-specific shapes: proto2 extensions, required fields, defaults and groups; proto3
		// optional; deep nesting and a recursive field everywhere
		switch f.Syntax {
		case "proto2":
			w(fmt.Sprintf("  required string must = %d;\n  optional int32 with_default = %d [default = 7];\n", num, num+1))
			w(fmt.Sprintf("  optional group Grp = %d {\n    optional int32 g = 1;\n  }\n  extensions 1000 to 1999;\n", num+2))
			num += 3
			proto2Extension = true
		case "proto3":
			w(fmt.Sprintf("  optional int32 maybe = %d;\n", num))
			num++
		}
		w(fmt.Sprintf("  message L1 {\n    message L2 {\n      message L3 {\n        %sstring deep = 1;\n      }\n      %sL3 l3 = 1;\n    }\n    %sL2 l2 = 1;\n  }\n", label, label, label))
		w(fmt.Sprintf("  %s%s self = %d;\n  %sL1.L2.L3 deepest = %d;\n", label, short, num, label, num+1))
		num += 2
	}
	if !o.LintClean && t.Draw("ws.oddcomments", 4) == 3 {
		// comments where no declaration claims them: before an option name, after the semicolon,
		// between the last field and the closing brace of a one-line message
		w(fmt.Sprintf("  %sint32 odd = %d [/* before the option */ deprecated = false]; /* after the semicolon */\n", label, num))
		num++
		w(fmt.Sprintf("  message OneLine { %sstring only = 1; /* before the brace */ }\n", label))
	}
	switch plantKind {
	case "undefined-type":
		f.ErrorLine = line
		f.ErrorColumn = 3 + len(label)
		w(fmt.Sprintf("  %sUndefinedType_%d bad = %d;\n", label, t.Draw("ws.nonce", 1000), num))
		num++
	case "duplicate-number":
		w(fmt.Sprintf("  %sstring again = 1;\n", label))
	case "syntax":
		w(fmt.Sprintf("  %sstring broken = ;\n", label))
	}
	w("}\n")
	if proto2Extension {
		w(fmt.Sprintf("\nextend %s {\n  optional int32 ext_%s = 1000;\n}\n", short, strings.ToLower(short)))
	}
	if plantKind == "duplicate-message" {
		w("\nmessage " + short + " {\n}\n")
	}
	if f.Syntax == "proto2" && !o.LintClean && t.Draw("ws.extchain", 3) == 2 {
		// a chain of extensions: A is extended by a field of type B, B by a field of type C, C by one of type D -
		// whoever keeps A "with its known extensions" has to follow the chain to its end, every time
		c := "Chain" + short[1:]
		w(fmt.Sprintf("\nmessage %sA {\n  extensions 100 to 199;\n}\n", c))
		for _, l := range []string{"B", "C"} {
			w(fmt.Sprintf("\nmessage %s%s {\n  optional string %s = 1;\n  extensions 100 to 199;\n}\n", c, l, strings.ToLower(l)))
		}
		w(fmt.Sprintf("\nmessage %sD {\n  optional string d = 1;\n}\n", c))
		for _, pair := range [][2]string{{"A", "B"}, {"B", "C"}, {"C", "D"}} {
			w(fmt.Sprintf("\nextend %s%s {\n  optional %s%s ext_%s_%s%s = 100;\n}\n", c, pair[0], c, pair[1], strings.ToLower(c), strings.ToLower(pair[0]), strings.ToLower(pair[1])))
		}
	}
	if f.Syntax == "editions" && !o.LintClean && t.Draw("ws.utf8feature", 3) == 2 {
		// string fields with a per-field feature (the previous version, see Mutate, has none): several
		// breaking rules look at the same field's options at once; now and then a great many fields
		nm, nf := 1, 3
		if t.Draw("ws.utf8wide", 3) == 2 {
			nm, nf = 12, 40
		}
		for k := 0; k < nm; k++ {
			w(fmt.Sprintf("\nmessage Strings%s%d {\n", short[1:], k))
			for j := 1; j <= nf; j++ {
				w(fmt.Sprintf("  string s%d = %d%s;\n", j, j, utf8FeatureOption))
			}
			w("}\n")
		}
	}
	if !o.LintClean && t.Draw("ws.enum", 3) == 1 {
		en := fmt.Sprintf("E%s", short[1:])
		w("\nenum " + en + " {\n")
		up := strings.ToUpper(en)
		if t.Draw("ws.alias", 2) == 1 {
			// several names for one number
			w("  option allow_alias = true;\n")
			w(fmt.Sprintf("  %s_UNSPECIFIED = 0;\n  %s_ONE = 1;\n  %s_UNO = 1;\n  %s_EINS = 1;\n  %s_ICHI = 1;\n}\n", up, up, up, up, up))
		} else {
			w(fmt.Sprintf("  %s_UNSPECIFIED = 0;\n  %s_ONE = 1;\n  %s_MINUS = -1;\n}\n", up, up, up))
		}
	}
	if f.HasService && !o.LintClean {
		w(fmt.Sprintf("\nservice S%s {\n  rpc Do(%s) returns (%s);\n", short[1:], short, short))
		if t.Draw("ws.streaming", 3) == 2 {
			w(fmt.Sprintf("  rpc Watch(stream %s) returns (stream %s);\n", short, short))
		}
		if rpcType != "" && t.Draw("ws.rpcimported", 2) == 1 {
			w(fmt.Sprintf("  rpc Use(%s) returns (%s) {\n    option deprecated = false;\n  }\n", rpcType, short))
		}
		w("}\n")
	}
	content := b.String()
	if !o.LintClean {
		// layout the compiler must cope with: CRLF line endings, no newline at the end of the file
		switch t.Draw("ws.layout", 8) {
		case 6:
			content = strings.ReplaceAll(content, "\n", "\r\n")
		case 7:
			content = strings.TrimSuffix(content, "\n")
		}
	}
	f.Content = content
}

// Mutate returns a copy of the workspace's file map with one tape-chosen
// breaking edit applied (a field removed), for breaking-change comparisons.
func (ws *Workspace) Mutate(t *tape.Tape) map[string]string {
	out := map[string]string{}
	var paths []string
	for p, f := range ws.Files {
		out[p] = f.Content
		if !ws.SuppliedWKT[p] {
			paths = append(paths, p)
		}
	}
	sort.Strings(paths)
	victim := paths[t.Draw("ws.victim", len(paths))]
	c := out[victim]
	if i := strings.Index(c, "string name = 1;"); i >= 0 {
		c = c[:i] + "int32 name = 1;" + c[i+len("string name = 1;"):]
	}
	out[victim] = c
	// the previous version of every aliased enum had other names for number 1 and one more
	// aliased number: deleted / renamed enum values whose messages list several names
	for _, p := range paths {
		c := out[p]
		if i := strings.Index(c, "_ICHI = 1;\n"); i >= 0 {
			j := strings.LastIndex(c[:i], "  ")
			up := c[j+2 : i]
			c = c[:j] + "  " + up + "_ONE_OLD = 1;\n  " + up + "_TWO = 2;\n  " + up + "_DOS = 2;\n  " + up + "_ZWEI = 2;\n  " + up + "_NI = 2;\n" + c[i+len("_ICHI = 1;\n"):]
			out[p] = c
		}
	}
	// the previous version had no per-field features
	for _, p := range paths {
		out[p] = strings.ReplaceAll(out[p], utf8FeatureOption, "")
	}
	// the previous version sometimes had several more files, each with its own package, that
	// no longer exist: deleted files and packages are reported without a file position
	if t.Draw("ws.deleted", 3) != 0 {
		n := 2 + t.Draw("ws.ndeleted", 4)
		for k := 0; k < n; k++ {
			out[fmt.Sprintf("%s%d/old%d.proto", RemovedPrefix, k, k)] = fmt.Sprintf("syntax = \"proto3\";\npackage removed.p%d;\nmessage Old%d { string name = 1; }\nenum OldE%d { OLD_E%d_UNSPECIFIED = 0; }\n", k, k, k, k)
		}
	}
	return out
}

// utf8FeatureOption is what Mutate removes from every field to obtain the previous version.
const utf8FeatureOption = " [features.utf8_validation = NONE]"

// RemovedPrefix starts the directory names of files that exist only in the previous version.
const RemovedPrefix = "zzremoved"

// CLIUsable says whether the targeting can be expressed as a directory input plus --path /
// --exclude-path flags (a proto-file reference is another kind of input).
func (ws *Workspace) CLIUsable() bool {
	for _, mod := range ws.Modules {
		if mod.ProtoFileTarget != "" {
			return false
		}
	}
	return true
}

// WriteV2Dir writes the workspace below root as a v2 workspace (buf.yaml, one directory mod<i>
// per module) and returns the module directories.
func (ws *Workspace) WriteV2Dir(root string, write func(path string, data []byte)) []string {
	var y strings.Builder
	y.WriteString("version: v2\nmodules:\n")
	var dirs []string
	for _, mod := range ws.Modules {
		dir := fmt.Sprintf("mod%d", mod.Index)
		dirs = append(dirs, dir)
		fmt.Fprintf(&y, "  - path: %s\n", dir)
		if mod.Name != "" {
			fmt.Fprintf(&y, "    name: %s\n", mod.Name)
		}
		for p, content := range mod.ModuleFiles() {
			write(root+"/"+dir+"/"+p, content)
		}
	}
	write(root+"/buf.yaml", []byte(y.String()))
	return dirs
}

// PathFlags expresses the targeting as --path / --exclude-path flags (a module directory itself may
// not be named: a fully targeted module is named by the top-level directories of its files; when
// nothing is left out by not being named, exclusions are given alone).
func (ws *Workspace) PathFlags(flagRoot string, modDirs []string) [][2]string {
	restricted, needPaths := false, false
	for _, mod := range ws.Modules {
		if !mod.Targeted || len(mod.TargetPaths) > 0 {
			restricted, needPaths = true, true
		}
		if len(mod.ExcludePaths) > 0 {
			restricted = true
		}
	}
	if !restricted {
		return nil
	}
	join := func(parts ...string) string {
		var out []string
		for _, p := range parts {
			if p != "" {
				out = append(out, p)
			}
		}
		return strings.Join(out, "/")
	}
	var flags [][2]string
	for _, mod := range ws.Modules {
		if !mod.Targeted {
			continue
		}
		dir := join(flagRoot, modDirs[mod.Index])
		if len(mod.TargetPaths) == 0 && needPaths {
			tops := map[string]bool{}
			for _, f := range mod.Files {
				tops[strings.SplitN(f.Path, "/", 2)[0]] = true
			}
			var names []string
			for top := range tops {
				names = append(names, top)
			}
			sort.Strings(names)
			for _, top := range names {
				flags = append(flags, [2]string{"--path", join(dir, top)})
			}
		}
		for _, p := range mod.TargetPaths {
			flags = append(flags, [2]string{"--path", join(dir, p)})
		}
		for _, p := range mod.ExcludePaths {
			flags = append(flags, [2]string{"--exclude-path", join(dir, p)})
		}
	}
	return flags
}
