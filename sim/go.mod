module github.com/bufbuild/verif

go 1.25.0

require (
	github.com/anishathalye/porcupine v1.3.0
	github.com/bufbuild/buf v0.0.0
)

require (
	github.com/klauspost/compress v1.18.0 // indirect
	golang.org/x/crypto v0.37.0 // indirect
	golang.org/x/sys v0.32.0 // indirect
)

replace github.com/bufbuild/buf => /repo
