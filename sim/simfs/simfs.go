// Package simfs interposes on buf's storage interfaces: every bucket operation
// is a scheduling point and a fault point owned by the simulator. For disk
// buckets, faults are injected below buf's own storageos code through the
// verifhook points so that storageos' real error handling runs.
package simfs

import (
	"context"
	"crypto/sha256"
	"encoding/hex"
	"io"
	"os"
	"path/filepath"
	"sort"
	"strings"
	"sync"

	"github.com/bufbuild/buf/private/pkg/storage"
	"github.com/bufbuild/verif/sched"
)

// Bucket wraps a real bucket.
type Bucket struct {
	S    *sched.Sim
	U    storage.ReadWriteBucket
	Name string
	// Hooks is non-nil when U is (a view of) a storageos bucket: write/close/rename
	// faults are then injected below storageos through the hooks.
	Hooks *Hooks
	// YieldReads makes every Read of a returned object a scheduling point.
	YieldReads bool
	// PermuteWalk permutes the order in which Walk reports objects.
	PermuteWalk bool
	// NoYield lists paths whose operations pass straight through (used where the
	// caller holds a sync.Once or mutex that other tasks contend for: parking
	// there would block them non-durably and hide quiescence from synctest).
	NoYield func(path string) bool
	// ReadOnlyFaults: names of fault kinds this bucket honours; nil = all.
	mu sync.Mutex
}

var _ storage.ReadWriteBucket = (*Bucket)(nil)

func (b *Bucket) label(path string) string { return b.Name + ":" + path }

// Get implements storage.ReadBucket.
func (b *Bucket) Get(ctx context.Context, path string) (storage.ReadObjectCloser, error) {
	if b.NoYield != nil && b.NoYield(path) {
		return b.U.Get(ctx, path)
	}
	d := b.S.Yield(ctx, "get", b.label(path))
	if err := d.Err("get " + b.label(path)); err != nil {
		if !d.Dead {
			b.S.Fired(d.Fault)
		}
		return nil, err
	}
	roc, err := b.U.Get(ctx, path)
	if err != nil {
		return nil, err
	}
	return &readObjectCloser{ReadObjectCloser: roc, b: b, ctx: ctx, path: path}, nil
}

// Stat implements storage.ReadBucket.
func (b *Bucket) Stat(ctx context.Context, path string) (storage.ObjectInfo, error) {
	if b.NoYield != nil && b.NoYield(path) {
		return b.U.Stat(ctx, path)
	}
	d := b.S.Yield(ctx, "stat", b.label(path))
	if err := d.Err("stat " + b.label(path)); err != nil {
		if !d.Dead {
			b.S.Fired(d.Fault)
		}
		return nil, err
	}
	return b.U.Stat(ctx, path)
}

// Walk implements storage.ReadBucket.
func (b *Bucket) Walk(ctx context.Context, prefix string, f func(storage.ObjectInfo) error) error {
	d := b.S.Yield(ctx, "walk", b.label(prefix))
	if d.Dead {
		return sched.ErrCrashed
	}
	if d.Fault == "walk-err" && d.Arg == 0 {
		b.S.Fired(d.Fault)
		return d.Err("walk " + b.label(prefix))
	}
	var infos []storage.ObjectInfo
	if err := b.U.Walk(ctx, prefix, func(info storage.ObjectInfo) error {
		infos = append(infos, info)
		return nil
	}); err != nil {
		return err
	}
	if b.PermuteWalk && len(infos) > 1 {
		perm := b.S.Tape.Perm("walkperm", len(infos))
		out := make([]storage.ObjectInfo, len(infos))
		nontrivial := false
		for i, j := range perm {
			out[i] = infos[j]
			if i != j {
				nontrivial = true
			}
		}
		infos = out
		if nontrivial {
			b.S.Probe("walk-permuted-nontrivially")
		}
	}
	for i, info := range infos {
		if d.Fault == "walk-err" && d.Arg > 0 && i+1 >= d.Arg {
			b.S.Fired(d.Fault)
			return d.Err("walk " + b.label(prefix))
		}
		if err := f(info); err != nil {
			return err
		}
	}
	return nil
}

// Put implements storage.WriteBucket.
func (b *Bucket) Put(ctx context.Context, path string, options ...storage.PutOption) (storage.WriteObjectCloser, error) {
	d := b.S.Yield(ctx, "put", b.label(path))
	if err := d.Err("put " + b.label(path)); err != nil {
		if !d.Dead {
			b.S.Fired(d.Fault)
		}
		return nil, err
	}
	if b.Hooks != nil {
		b.Hooks.clearCreated()
	}
	woc, err := b.U.Put(ctx, path, options...)
	if err != nil {
		return nil, err
	}
	w := &writeObjectCloser{WriteObjectCloser: woc, b: b, ctx: ctx, path: path, atomic: storage.NewPutOptions(options).Atomic()}
	if b.Hooks != nil {
		w.osName, w.osFinal = b.Hooks.takeCreated()
	}
	return w, nil
}

// Delete implements storage.WriteBucket.
func (b *Bucket) Delete(ctx context.Context, path string) error {
	d := b.S.Yield(ctx, "delete", b.label(path))
	if err := d.Err("delete " + b.label(path)); err != nil {
		if !d.Dead {
			b.S.Fired(d.Fault)
		}
		return err
	}
	return b.U.Delete(ctx, path)
}

// DeleteAll implements storage.WriteBucket.
func (b *Bucket) DeleteAll(ctx context.Context, prefix string) error {
	d := b.S.Yield(ctx, "deleteall", b.label(prefix))
	if err := d.Err("deleteall " + b.label(prefix)); err != nil {
		if !d.Dead {
			b.S.Fired(d.Fault)
		}
		return err
	}
	return b.U.DeleteAll(ctx, prefix)
}

// SetExternalAndLocalPathsSupported implements storage.WriteBucket.
func (b *Bucket) SetExternalAndLocalPathsSupported() bool {
	return b.U.SetExternalAndLocalPathsSupported()
}

type readObjectCloser struct {
	storage.ReadObjectCloser
	b      *Bucket
	ctx    context.Context
	path   string
	dead   bool
	nreads int
}

func (r *readObjectCloser) Read(p []byte) (int, error) {
	if r.b.YieldReads {
		d := r.b.S.Yield(r.ctx, "read", r.b.label(r.path))
		if d.Dead {
			return 0, sched.ErrCrashed
		}
		if d.Fault == "read-err" {
			r.b.S.Fired(d.Fault)
			return 0, d.Err("read " + r.b.label(r.path))
		}
		if d.Fault == "short-read" && len(p) > 1 {
			// legal behaviour of any io.Reader: fewer bytes than asked for and no error
			r.b.S.Fired(d.Fault)
			return r.ReadObjectCloser.Read(p[:1+d.Arg%(len(p)-1)])
		}
	}
	return r.ReadObjectCloser.Read(p)
}

func (r *readObjectCloser) Close() error {
	return r.ReadObjectCloser.Close()
}

type writeObjectCloser struct {
	storage.WriteObjectCloser
	b       *Bucket
	ctx     context.Context
	path    string
	atomic  bool
	osName  string
	osFinal string
	closed  bool
}

func (w *writeObjectCloser) Write(p []byte) (int, error) {
	d := w.b.S.Yield(w.ctx, "write", w.b.label(w.path), sched.WithSize(len(p)))
	if d.Dead {
		return 0, sched.ErrCrashed
	}
	switch d.Fault {
	case "write-err", "short-write", "enospc":
		k := 0
		if d.Fault != "write-err" && len(p) > 0 {
			k = d.Arg % len(p)
		}
		ierr := d.Err("write " + w.b.label(w.path))
		w.b.S.Fired(d.Fault)
		if w.b.Hooks != nil && w.osName != "" {
			// below storageos: its own first-error bookkeeping runs
			w.b.Hooks.setWriteFault(w.osName, k, ierr)
			return w.WriteObjectCloser.Write(p)
		}
		n := 0
		if k > 0 {
			n, _ = w.WriteObjectCloser.Write(p[:k])
		}
		return n, ierr
	}
	return w.WriteObjectCloser.Write(p)
}

func (w *writeObjectCloser) Close() error {
	d := w.b.S.Yield(w.ctx, "close", w.b.label(w.path))
	if d.Dead {
		// the process is gone: nothing more reaches the disk
		return sched.ErrCrashed
	}
	switch d.Fault {
	case "close-err":
		ierr := d.Err("close " + w.b.label(w.path))
		w.b.S.Fired(d.Fault)
		if w.b.Hooks != nil && w.osName != "" {
			w.b.Hooks.setCloseFault(w.osName, ierr, d.Salt%2 == 1)
			return w.WriteObjectCloser.Close()
		}
		_ = w.WriteObjectCloser.Close()
		return ierr
	case "rename-err":
		if w.b.Hooks != nil && w.osName != "" && w.atomic {
			w.b.Hooks.setRenameFault(w.osName, d.Salt%2 == 0)
			err := w.WriteObjectCloser.Close()
			w.b.Hooks.restoreRename(w.osName)
			return err
		}
	}
	if w.b.Hooks != nil && w.osName != "" && w.atomic {
		w.b.Hooks.setRenameYield(w.osName, w.b.label(w.path))
	}
	return w.WriteObjectCloser.Close()
}

// ---------------------------------------------------------------------

// Hooks implements verifhook.Handler on top of a Sim.
type Hooks struct {
	S *sched.Sim
	// RenameYield makes the instant between close and rename of an atomic put a
	// scheduling point (other tasks may run, crash snapshots see the state).
	RenameYield bool
	// RawRoot, when set, turns every write, close and rename of a file below that directory
	// into a scheduling and fault point of the task that runs now, although no Bucket wrapper
	// sits in front of the disk bucket (code that creates its own storageos provider, such as
	// a CLI command run in-process). Creation itself cannot be failed from here.
	RawRoot  string
	RawName  string            // label prefix of raw operations (the name a Bucket wrapper would have)
	rawFinal map[string]string // temp file name -> final path, for labels
	wrapped  map[string]bool   // files created through a Bucket wrapper
	// AtomicFinals, when non-nil, collects the final OS path of every object storageos created through
	// a temporary file (an atomic put), whoever asked for it
	AtomicFinals map[string]bool

	mu          sync.Mutex
	createdName string
	createdFin  string
	writeFault  map[string]writeFault
	closeFault  map[string]error
	closeLossy  map[string]bool
	renameFault map[string]*renameTrick
	renameYield map[string]string
}

type writeFault struct {
	keep int
	err  error
}

type renameTrick struct {
	// vanish: the rename fails because the temporary file is gone (ENOENT - a cache cleaner or
	// a sweeper of temporary files got there first); otherwise because a directory sits at the
	// destination
	vanish  bool
	applied bool
	dest    string
	backup  string
}

// NewHooks returns a handler.
func NewHooks(s *sched.Sim) *Hooks {
	return &Hooks{
		S:           s,
		writeFault:  map[string]writeFault{},
		closeFault:  map[string]error{},
		closeLossy:  map[string]bool{},
		renameFault: map[string]*renameTrick{},
		renameYield: map[string]string{},
		rawFinal:    map[string]string{},
		wrapped:     map[string]bool{},
	}
}

// rawLabel returns the stable label of a file below RawRoot ("" if the file is elsewhere).
func (h *Hooks) rawLabel(name string) string {
	if h.RawRoot == "" || !strings.HasPrefix(name, h.RawRoot+string(filepath.Separator)) {
		return ""
	}
	h.mu.Lock()
	fin, wrapped := h.rawFinal[name], h.wrapped[name]
	h.mu.Unlock()
	if wrapped {
		return ""
	}
	if fin != "" {
		name = fin
	}
	return h.RawName + ":" + filepath.ToSlash(strings.TrimPrefix(name, h.RawRoot+string(filepath.Separator)))
}

func (h *Hooks) clearCreated() {
	h.mu.Lock()
	h.createdName, h.createdFin = "", ""
	h.mu.Unlock()
}

func (h *Hooks) takeCreated() (string, string) {
	h.mu.Lock()
	defer h.mu.Unlock()
	n, f := h.createdName, h.createdFin
	h.createdName, h.createdFin = "", ""
	if n != "" {
		// a Bucket wrapper looks after this file: the raw mode leaves it alone
		h.wrapped[n] = true
	}
	return n, f
}

func (h *Hooks) setWriteFault(name string, keep int, err error) {
	h.mu.Lock()
	h.writeFault[name] = writeFault{keep: keep, err: err}
	h.mu.Unlock()
}

// setCloseFault: the close of the file will report err. lossy: and the tail of what was written is
// lost, as when the write-back a close waits for fails (ENOSPC on delayed allocation, EDQUOT, EIO on a
// network file system) - the file keeps the first half of its bytes.
func (h *Hooks) setCloseFault(name string, err error, lossy bool) {
	h.mu.Lock()
	h.closeFault[name] = err
	if lossy {
		h.closeLossy[name] = true
	}
	h.mu.Unlock()
}

func loseTail(name string) {
	if fi, err := os.Lstat(name); err == nil && fi.Mode().IsRegular() && fi.Size() > 0 {
		_ = os.Truncate(name, fi.Size()/2)
	}
}

func (h *Hooks) setRenameFault(name string, vanish bool) {
	h.mu.Lock()
	h.renameFault[name] = &renameTrick{vanish: vanish}
	h.mu.Unlock()
}

func (h *Hooks) setRenameYield(name, label string) {
	if !h.RenameYield {
		return
	}
	h.mu.Lock()
	h.renameYield[name] = label
	h.mu.Unlock()
}

func (h *Hooks) restoreRename(name string) {
	h.mu.Lock()
	t := h.renameFault[name]
	delete(h.renameFault, name)
	h.mu.Unlock()
	if t == nil || !t.applied {
		return
	}
	_ = os.Remove(t.dest)
	if t.backup != "" {
		_ = os.Rename(t.backup, t.dest)
	}
}

// Point implements verifhook.Handler.
func (h *Hooks) Point(ctx context.Context, name string, args []string) {
	switch name {
	case "os.put.created":
		if args[1] != "" {
			h.mu.Lock()
			if h.AtomicFinals != nil {
				h.AtomicFinals[args[1]] = true
			}
			h.mu.Unlock()
		}
		if h.RawRoot != "" && args[1] != "" && strings.HasPrefix(args[0], h.RawRoot+string(filepath.Separator)) {
			h.mu.Lock()
			h.rawFinal[args[0]] = args[1]
			h.mu.Unlock()
		}
		if sched.ProcOf(ctx) == nil {
			return
		}
		h.mu.Lock()
		h.createdName = args[0]
		h.createdFin = args[1]
		h.mu.Unlock()
	case "os.atomic.beforeRename":
		tmp, dest := args[0], args[1]
		if label := h.rawLabel(tmp); label != "" {
			d := h.S.YieldCurrentAs("rename", label)
			if d.Fault == "rename-err" {
				// raw mode: no wrapper will put the destination back, so only the vanishing temp file
				h.setRenameFault(tmp, true)
			}
		}
		h.mu.Lock()
		label, yield := h.renameYield[tmp]
		delete(h.renameYield, tmp)
		t := h.renameFault[tmp]
		h.mu.Unlock()
		if yield {
			h.S.YieldCurrent("rename", label, sched.NoFault())
		}
		if t != nil && t.vanish {
			// make the real os.Rename fail with ENOENT: the temporary file is gone
			if err := os.Remove(tmp); err == nil {
				h.S.Fired("rename-err")
			}
			return
		}
		if t != nil {
			// make the real os.Rename fail: a directory sits at the destination
			t.dest = dest
			if _, err := os.Lstat(dest); err == nil {
				t.backup = dest + ".verifbak"
				if err := os.Rename(dest, t.backup); err != nil {
					t.backup = ""
					return
				}
			}
			if err := os.Mkdir(dest, 0o755); err == nil {
				t.applied = true
				h.S.Fired("rename-err")
			}
		}
	case "thread.job.start":
		if h.S.YieldJobs {
			h.S.Yield(ctx, "job.start", "", sched.NoFault())
		}
	case "thread.job.end":
		if h.S.YieldJobs {
			h.S.Yield(ctx, "job.end", "", sched.NoFault())
		}
	}
}

// Fault implements verifhook.Handler.
func (h *Hooks) Fault(ctx context.Context, name string, arg string, err error) error {
	if name != "os.close" {
		return err
	}
	if label := h.rawLabel(arg); label != "" && err == nil {
		d := h.S.YieldCurrentAs("close", label)
		if d.Fault == "close-err" {
			h.S.Fired(d.Fault)
			if d.Salt%2 == 1 {
				loseTail(arg)
				h.S.Probe("close-lost-tail")
			}
			return d.Err("close " + label)
		}
		if d.Fault == "rename-err" {
			// raw mode: no wrapper will put the destination back, so only the vanishing temp file
			h.setRenameFault(arg, true)
		}
		return err
	}
	h.mu.Lock()
	ierr := h.closeFault[arg]
	lossy := h.closeLossy[arg]
	delete(h.closeFault, arg)
	delete(h.closeLossy, arg)
	h.mu.Unlock()
	if ierr != nil && err == nil {
		if lossy {
			loseTail(arg)
			h.S.Probe("close-lost-tail")
		}
		return ierr
	}
	return err
}

// Shorten implements verifhook.Handler.
func (h *Hooks) Shorten(name string, p []byte) ([]byte, error) {
	if label := h.rawLabel(name); label != "" {
		d := h.S.YieldCurrentAs("write", label, sched.WithSize(len(p)))
		switch d.Fault {
		case "write-err":
			h.S.Fired(d.Fault)
			return p[:0], d.Err("write " + label)
		case "short-write":
			h.S.Fired(d.Fault)
			k := 0
			if len(p) > 0 {
				k = d.Arg % len(p)
			}
			return p[:k], d.Err("write " + label)
		}
		return p, nil
	}
	h.mu.Lock()
	wf, ok := h.writeFault[name]
	delete(h.writeFault, name)
	h.mu.Unlock()
	if !ok {
		return p, nil
	}
	if wf.keep > len(p) {
		wf.keep = len(p)
	}
	return p[:wf.keep], wf.err
}

// JobContext implements verifhook.Handler.
func (h *Hooks) JobContext(ctx context.Context, index int) context.Context {
	return h.S.JobContext(ctx, index)
}

// ---------------------------------------------------------------------

// Snapshot reads the full content of a bucket into a map (no yields: call it
// with a context that carries no simulated task).
func Snapshot(ctx context.Context, b storage.ReadBucket) (map[string]string, error) {
	out := map[string]string{}
	var paths []string
	if err := b.Walk(ctx, "", func(info storage.ObjectInfo) error {
		paths = append(paths, info.Path())
		return nil
	}); err != nil {
		return nil, err
	}
	for _, p := range paths {
		data, err := storage.ReadPath(ctx, b, p)
		if err != nil {
			return nil, err
		}
		out[p] = string(data)
	}
	return out, nil
}

// DirState lists every regular file below dir with its content, keyed by
// slash-separated relative path. Temp files of atomic puts are reported under
// their real names.
func DirState(dir string) (map[string]string, error) {
	out := map[string]string{}
	err := filepath.Walk(dir, func(p string, info os.FileInfo, err error) error {
		if err != nil {
			return err
		}
		if info.Mode().IsRegular() {
			data, err := os.ReadFile(p)
			if err != nil {
				return err
			}
			rel, _ := filepath.Rel(dir, p)
			out[filepath.ToSlash(rel)] = string(data)
		}
		return nil
	})
	return out, err
}

// CopyDir copies a directory tree (regular files and directories only).
func CopyDir(src, dst string) error {
	return filepath.Walk(src, func(p string, info os.FileInfo, err error) error {
		if err != nil {
			return err
		}
		rel, _ := filepath.Rel(src, p)
		target := filepath.Join(dst, rel)
		if info.IsDir() {
			return os.MkdirAll(target, 0o755)
		}
		if !info.Mode().IsRegular() {
			return nil
		}
		in, err := os.Open(p)
		if err != nil {
			return err
		}
		defer in.Close()
		out, err := os.Create(target)
		if err != nil {
			return err
		}
		if _, err := io.Copy(out, in); err != nil {
			out.Close()
			return err
		}
		return out.Close()
	})
}

// SortedKeys returns the sorted keys of m.
func SortedKeys[V any](m map[string]V) []string {
	keys := make([]string, 0, len(m))
	for k := range m {
		keys = append(keys, k)
	}
	sort.Strings(keys)
	return keys
}

// IsTemp says whether a relative path names a storageos atomic-put temp file.
func IsTemp(rel string) bool {
	// os.CreateTemp(dir, ".tmp<base>*") replaces the star by a decimal number: an object that merely
	// starts with ".tmp" (".tmpl", ".tmp.proto") is not a temporary file
	base := filepath.Base(rel)
	return strings.HasPrefix(base, ".tmp") && len(base) > 4 && base[len(base)-1] >= '0' && base[len(base)-1] <= '9'
}

// StateHash hashes a directory state; temp files of atomic puts carry a random
// suffix and are normalised to "<dir>/.tmp*".
func StateHash(state map[string]string) string {
	var lines []string
	for _, k := range SortedKeys(state) {
		name := k
		if IsTemp(k) {
			name = filepath.ToSlash(filepath.Join(filepath.Dir(k), ".tmp*"))
		}
		h := sha256.Sum256([]byte(state[k]))
		lines = append(lines, name+"="+hex.EncodeToString(h[:8]))
	}
	sort.Strings(lines)
	h := sha256.Sum256([]byte(strings.Join(lines, ";")))
	return hex.EncodeToString(h[:10])
}

// ReadOnly adapts a ReadBucket to the ReadWriteBucket the wrapper expects; writes fail.
func ReadOnly(rb storage.ReadBucket) storage.ReadWriteBucket { return readOnly{rb} }

type readOnly struct{ storage.ReadBucket }

func (readOnly) Put(context.Context, string, ...storage.PutOption) (storage.WriteObjectCloser, error) {
	return nil, errReadOnly
}
func (readOnly) Delete(context.Context, string) error    { return errReadOnly }
func (readOnly) DeleteAll(context.Context, string) error { return errReadOnly }
func (readOnly) SetExternalAndLocalPathsSupported() bool { return false }

var errReadOnly = &readOnlyError{}

type readOnlyError struct{}

func (*readOnlyError) Error() string { return "verif: read-only bucket" }
