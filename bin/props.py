"""Per-property configuration of the checks (what runs, how much, and what the evidence says)."""

COMMON_ASSUMPTIONS = [
    "a clean batch is evidence, not proof: the schedule/fault space is sampled from a seeded PRNG, not enumerated",
    "Go's per-range map iteration order and the runtime's choice among runnable goroutines between two yield points are not controlled; everything else is a pure function of the tape (re-checked on a sample of runs in every batch)",
    "crash model is process death with kernel state intact (buf never fsyncs); power loss is out of scope",
]

PROPS = {
    "C15": {
        "engine": "faultsim",
        "level": "fault_enumeration",
        "runs": {"quick": 640, "thorough": 40000},
        "max_wall_s": {"quick": 0, "thorough": 1500},
        "shrink_s": {"quick": 45, "thorough": 300},
        "recheck_every": 25,
        "min_chunk": 8,
        "rule": ("one evaluation = one generated case: a write path, a tape-drawn source file set, a destination backend "
                 "(memory / disk / disk behind a prefix view), atomic or not, parallelism; part A re-executes the write path "
                 "once per (destination operation position, applicable fault kind) under a tape-drawn schedule, part B performs "
                 "atomic puts on a real directory with crash snapshots, concurrent readers and injected failures. A case is "
                 "non-trivial if at least one fault fired or the scheduler had a real choice; distinct = distinct "
                 "(released-operation sequence hash, fired-fault multiset)"),
        "real": ["storage.Copy/CopyPath/CopyReader/CopyReadObject/PutPath/ForWriteObject", "storagearchive.Tar/Untar/Zip/Unzip",
                 "bufcas.PutFileSetToBucket", "storage.MapReadWriteBucket", "storageos bucket incl. atomic writer (real directory on tmpfs)",
                 "storagemem", "thread.Parallelize"],
        "stubbed": ["destination bucket wrapper / io.Writer that yields and injects put/write/short-write/close errors",
                    "verifhook points inside storageos for short writes, close and rename failures below buf's own code"],
        "assumptions": COMMON_ASSUMPTIONS + [
            "an injected error on Put/Write/Close/Rename is what 'a write, close or rename fails' means; buf has no retry on these paths",
        ],
        "probes_expected": {"quick": ["put-err", "write-err", "short-write", "close-err", "rename-err"],
                            "thorough": ["put-err", "write-err", "short-write", "close-err", "rename-err"]},
    },
    "C14": {
        "engine": "storesim",
        "level": "exploration",
        "runs": {"quick": 4000, "thorough": 400000},
        "max_wall_s": {"quick": 0, "thorough": 1500},
        "shrink_s": {"quick": 45, "thorough": 300},
        "recheck_every": 100,
        "min_chunk": 16,
        "rule": ("one evaluation = one history of 20-80 tape-drawn micro-steps (put-open / write / close, get-open / read, stat, walk, "
                 "delete, delete-all, copy between kinds, tar/zip round trip, hostile archive / plugin names) interleaved over a random "
                 "tree of real buckets and combinators (memory, disk, disk+symlink mode, prefix map incl. chained mappers, filter, union, "
                 "overlay, strip), every step followed by model and containment invariants; non-trivial = at least 4 different operation "
                 "kinds executed; distinct = distinct full trace hash"),
        "real": ["storagemem", "storageos (real directories on tmpfs, with and without symlink mode)", "storage.Map*/Filter*/Multi/Overlay/Strip buckets",
                 "storage.Copy", "storagearchive Tar/Untar/Zip/Unzip", "normalpath", "bufprotoplugin.ResponseWriter.WriteResponse"],
        "stubbed": ["nothing is stubbed: the tape interleaves micro-steps of several logical clients; no goroutine scheduling is involved in this engine"],
        "assumptions": COMMON_ASSUMPTIONS + [
            "path universe is prefix-free (a file is never also a directory); otherwise disk and memory legitimately differ",
            "reads of an object with a non-atomic disk put in flight are not checked (documented as undefined)",
            "concurrent-client linearizability of the memory bucket (porcupine) is not part of this engine: the wrapper serialises operations, so it would only re-test sequential behaviour",
        ],
        "probes_expected": {"quick": ["union-duplicate-detected", "copy-between-kinds", "archive-round-trip", "reader-completed"],
                            "thorough": ["union-duplicate-detected", "copy-between-kinds", "archive-round-trip", "reader-completed"]},
    },
    "C13": {
        "engine": "storesim",
        "level": "exploration",
        "runs": {"quick": 4000, "thorough": 400000},
        "max_wall_s": {"quick": 0, "thorough": 1500},
        "shrink_s": {"quick": 45, "thorough": 300},
        "recheck_every": 100,
        "min_chunk": 16,
        "rule": ("same engine as C14 with the operation mix biased to hostile paths: every get/stat/walk/put/delete/delete-all/copy/untar/unzip/"
                 "plugin-response step draws paths over the component alphabet {name, '.', '..', '', dotted name} (1-5 components, optional "
                 "leading '/'); after every step sentinels beside and above every disk root, objects outside every mapped view and every other "
                 "base must be unchanged, and a path that escapes by an independent lexical resolver must have been rejected; non-trivial = at "
                 "least 4 operation kinds; distinct = distinct full trace hash; distinct hostile spellings reached are reported separately"),
        "real": ["storagemem", "storageos", "storage.Map*/Filter*/Multi/Overlay/Strip", "storagearchive Untar/Unzip with hostile entry names",
                 "normalpath.NormalizeAndValidate", "bufprotoplugin.ResponseWriter.WriteResponse"],
        "stubbed": ["nothing"],
        "assumptions": COMMON_ASSUMPTIONS + [
            "only the history clause is decided; the 'exhaustively up to a length bound' clause is sampled (coverage of the short-string set is measured and reported, not assumed)",
            "normalpath_windows.go is not built on this platform",
        ],
        "probes_expected": {"quick": ["hostile-archive", "hostile-plugin-response"], "thorough": ["hostile-archive", "hostile-plugin-response"]},
    },
}
