"""Per-property configuration of the checks (what runs, how much, and what the evidence says)."""

COMMON_ASSUMPTIONS = [
    "a clean batch is evidence, not proof: the schedule/fault space is sampled from a seeded PRNG, not enumerated",
    "Go's per-range map iteration order and the runtime's choice among runnable goroutines between two yield points are not controlled; everything else is a pure function of the tape (re-checked on a sample of runs in every batch)",
    "crash model is process death with kernel state intact (buf never fsyncs); power loss is out of scope",
]

PROPS = {
    "C15": {
        "engine": "faultsim",
        "level": "fault_enumeration",
        "runs": {"quick": 640, "thorough": 40000},
        "max_wall_s": {"quick": 0, "thorough": 1500},
        "shrink_s": {"quick": 45, "thorough": 300},
        "recheck_every": 25,
        "min_chunk": 8,
        "rule": ("one evaluation = one generated case: a write path, a tape-drawn source file set, a destination backend "
                 "(memory / disk / disk behind a prefix view), atomic or not, parallelism; part A re-executes the write path "
                 "once per (destination operation position, applicable fault kind) under a tape-drawn schedule, part B performs "
                 "atomic puts on a real directory with crash snapshots, concurrent readers and injected failures. A case is "
                 "non-trivial if at least one fault fired or the scheduler had a real choice; distinct = distinct "
                 "(released-operation sequence hash, fired-fault multiset)"),
        "real": ["storage.Copy/CopyPath/CopyReader/CopyReadObject/PutPath/ForWriteObject", "storagearchive.Tar/Untar/Zip/Unzip",
                 "bufcas.PutFileSetToBucket", "storage.MapReadWriteBucket", "storageos bucket incl. atomic writer (real directory on tmpfs)",
                 "storagemem", "thread.Parallelize"],
        "stubbed": ["destination bucket wrapper / io.Writer that yields and injects put/write/short-write/close errors",
                    "verifhook points inside storageos for short writes, close and rename failures below buf's own code"],
        "assumptions": COMMON_ASSUMPTIONS + [
            "an injected error on Put/Write/Close/Rename is what 'a write, close or rename fails' means; buf has no retry on these paths",
        ],
        "probes_expected": {"quick": ["put-err", "write-err", "short-write", "close-err", "rename-err"],
                            "thorough": ["put-err", "write-err", "short-write", "close-err", "rename-err"]},
    },
}
