"""Per-property configuration of the checks (what runs, how much, and what the evidence says)."""

COMMON_ASSUMPTIONS = [
    "a clean batch is evidence, not proof: the schedule/fault space is sampled from a seeded PRNG, not enumerated",
    "Go's per-range map iteration order and the runtime's choice among runnable goroutines between two yield points are not controlled; everything else is a pure function of the tape (re-checked on a sample of runs in every batch)",
    "crash model is process death with kernel state intact (buf never fsyncs); power loss is out of scope",
]

PROPS = {
    "C15": {
        "engine": "faultsim",
        "level": "fault_enumeration",
        "runs": {"quick": 2000, "thorough": 40000},
        "max_wall_s": {"quick": 0, "thorough": 1500},
        "shrink_s": {"quick": 45, "thorough": 300},
        "recheck_every": 25,
        "min_chunk": 8,
        "rule": ("one evaluation = one generated case: a write path, a tape-drawn source file set, a destination backend "
                 "(memory / disk / disk behind a prefix view), atomic or not, parallelism; part A re-executes the write path "
                 "once per (destination operation position, applicable fault kind) under a tape-drawn schedule, part B performs "
                 "atomic puts on a real directory with crash snapshots, concurrent readers and injected failures. A case is "
                 "non-trivial if at least one fault fired or the scheduler had a real choice; distinct = distinct "
                 "(released-operation sequence hash, fired-fault multiset)"),
        "real": ["storage.Copy/CopyPath/CopyReader/CopyReadObject/PutPath/ForWriteObject", "storagearchive.Tar/Untar/Zip/Unzip",
                 "bufcas.PutFileSetToBucket", "storage.MapReadWriteBucket", "storageos bucket incl. atomic writer (real directory on tmpfs)",
                 "storagemem", "thread.Parallelize", "bufmodulestore ModuleDataStore (dir, tar) and CommitStore puts",
                 "bufconfig PutBufYAMLFile / PutBufLockFile / PutBufWorkYAMLFile / PutBufGenYAMLFile",
                 "bufprotopluginos.ResponseWriter flushing plugin output into a directory, a .zip and a .jar",
                 "the `buf export` command run in-process (root command, bufctl controller, bufworkspace, image build, storageos provider of its own)"],
        "stubbed": ["destination bucket wrapper / io.Writer that yields and injects put/write/short-write/close errors",
                    "verifhook points inside storageos for short writes, close and rename failures below buf's own code; in 'raw' mode "
                    "(destinations the code opens itself: buf export, plugin output archives) these points are themselves the scheduling and fault points",
                    "injected write-side errors carry a tape-salted errno (none / ENOSPC / ENOENT / EACCES / EIO)"],
        "assumptions": COMMON_ASSUMPTIONS + [
            "an injected error on Put/Write/Close/Rename is what 'a write, close or rename fails' means; buf has no retry on these paths",
        ],
        "probes_expected": {"quick": ["put-err", "write-err", "short-write", "close-err", "rename-err", "device-full", "file-size-limit", "atomic-put-hit-file-size-limit", "more-than-a-thousand-objects", "cache-healed-by-later-run"],
                            "thorough": ["put-err", "write-err", "short-write", "close-err", "rename-err", "device-full", "file-size-limit", "atomic-put-hit-file-size-limit", "more-than-a-thousand-objects", "cache-healed-by-later-run"]},
    },
    "C14": {
        "engine": "storesim",
        "level": "exploration",
        "runs": {"quick": 8000, "thorough": 400000},
        "max_wall_s": {"quick": 0, "thorough": 1500},
        "shrink_s": {"quick": 45, "thorough": 300},
        "recheck_every": 100,
        "min_chunk": 16,
        "rule": ("one evaluation = one history of 20-80 tape-drawn micro-steps (put-open / write / close, get-open / read, stat, walk, "
                 "delete, delete-all, copy between kinds, tar/zip round trip, hostile archive / plugin names) interleaved over a random "
                 "tree of real buckets and combinators (memory, disk, disk+symlink mode, prefix map incl. chained mappers, filter, union, "
                 "overlay, strip), every step followed by model and containment invariants; special steps: foreign archives, file-node paths, "
                 "configuration directories, a cached module whose marker points outside its directory, and a free-running concurrent step "
                 "(three goroutines put/get/delete on two paths of a memory bucket, one disk bucket or one disk bucket value per client while "
                 "a fourth walks; history checked for linearizability with porcupine); disk roots are given absolutely or relative to the "
                 "engine's own working directory, some contain a symbolic link to an outside file; non-trivial = at least 4 different "
                 "operation kinds executed; distinct = distinct full trace hash"),
        "real": ["storagemem", "storageos (real directories on tmpfs, with and without symlink mode)", "storage.Map*/Filter*/Multi/Overlay/Strip buckets",
                 "storage.Copy", "storagearchive Tar/Untar/Zip/Unzip", "normalpath", "bufprotoplugin.ResponseWriter.WriteResponse"],
        "stubbed": ["nothing is stubbed: the tape interleaves micro-steps of several logical clients; goroutines run only in the concurrent step, "
                    "freely (not scheduled by the simulator: its violations replay statistically)"],
        "assumptions": COMMON_ASSUMPTIONS + [
            "path universe is prefix-free (a file is never also a directory); otherwise disk and memory legitimately differ",
            "reads of an object with a non-atomic disk put in flight are not checked (documented as undefined)",
            "concurrent histories are short (3 clients x 7 operations, 2 paths) so that the linearizability check stays tractable; an inconclusive check is never reported",
        ],
        "probes_expected": {"quick": ["union-duplicate-detected", "copy-between-kinds", "archive-round-trip", "reader-completed", "linked-directory-in-symlink-bucket"],
                            "thorough": ["union-duplicate-detected", "copy-between-kinds", "archive-round-trip", "reader-completed", "linked-directory-in-symlink-bucket"]},
    },
    "C13": {
        "engine": "storesim",
        # plugin-generated names / output directories: bufgen end to end with scripted plugins, containment oracles only
        "also": [{"engine": "gensim", "runs": {"quick": 2000, "thorough": 60000}},
                 # write paths under injected write / close / rename failures: cleaning up after a failed write stops at the root
                 {"engine": "faultsim", "runs": {"quick": 600, "thorough": 20000}}],
        "level": "exploration",
        "runs": {"quick": 8000, "thorough": 400000},
        "max_wall_s": {"quick": 0, "thorough": 1500},
        "shrink_s": {"quick": 45, "thorough": 300},
        "recheck_every": 100,
        "min_chunk": 16,
        "rule": ("same engine as C14 with the operation mix biased to hostile paths: every get/stat/walk/put/delete/delete-all/copy/untar/unzip/"
                 "plugin-response step draws paths over the component alphabet {name, '.', '..', '', dotted name} (1-5 components, optional "
                 "leading '/'); after every step sentinels beside and above every disk root, objects outside every mapped view and every other "
                 "base must be unchanged, and a path that escapes by an independent lexical resolver must have been rejected; non-trivial = at "
                 "least 4 operation kinds; distinct = distinct full trace hash; distinct hostile spellings reached are reported separately"),
        "real": ["storagemem", "storageos", "storage.Map*/Filter*/Multi/Overlay/Strip", "storagearchive Untar/Unzip with hostile entry names",
                 "normalpath.NormalizeAndValidate", "bufprotoplugin.ResponseWriter.WriteResponse",
                 "bufgen.Generator incl. clean-before-generate, bufprotopluginos response writer and cleaner (second engine, containment oracles only)"],
        "stubbed": ["nothing in the storage engine; scripted in-process plugins in the generation engine"],
        "assumptions": COMMON_ASSUMPTIONS + [
            "only the history clause is decided; the 'exhaustively up to a length bound' clause is sampled (coverage of the short-string set is measured and reported, not assumed)",
            "normalpath_windows.go is not built on this platform",
        ],
        "probes_expected": {"quick": ["hostile-archive", "hostile-plugin-response", "put-through-dir-link", "cli-path-values", "git-input-with-links"], "thorough": ["hostile-archive", "hostile-plugin-response", "put-through-dir-link", "cli-path-values", "git-input-with-links"]},
    },
    "C09": {
        "engine": "cachesim",
        "aux_test": "TestLockConformance",
        "aux_n": {"quick": 200, "thorough": 5000},
        "level": "fault_enumeration",
        "runs": {"quick": 800, "thorough": 120000},
        "max_wall_s": {"quick": 0, "thorough": 1500},
        "shrink_s": {"quick": 60, "thorough": 400},
        "recheck_every": 20,
        "min_chunk": 8,
        "rule": ("one evaluation = one simulated history of the module cache: 1-3 generated modules (b5, or b4 with v1 buf.yaml/buf.lock data), "
                 "directory or tar layout, 1-3 epochs of 1-3 simulated buf processes each running a tape-drawn script of provide / store-get / "
                 "store-put over ONE real cache directory and ONE lock table, interleaved at single bucket / lock / hook / registry operations, "
                 "with tape-drawn I/O faults, lock errors, stalls, registry faults, process and machine crashes, and tampering between epochs; "
                 "EVERY distinct disk state a run passes through is treated as a crash point: the directory is copied and a fresh store and "
                 "provider must (O2) find only complete entries and (O3) repair everything; non-trivial = the scheduler had a real choice or a "
                 "fault fired; distinct = distinct (released-operation sequence, fired-fault multiset); distinct crash states are counted separately"),
        "real": ["bufmodulecache provider (base_provider)", "bufmodulestore.ModuleDataStore (directory and tar layouts)", "bufmodule.ModuleData incl. lazy digest check",
                 "storage.Copy / PutPath / Map buckets", "storagearchive Tar/Untar", "storageos bucket on a real directory (tmpfs) incl. atomic writer", "thread.Parallelize"],
        "stubbed": ["registry: in-memory OmniProvider behind a yielding, fault-injecting wrapper", "filelock.Locker: readers/writer lock table on the simulated clock (3 s timeout), locks dropped on simulated process death; real flock between real processes is not exercised",
                    "process boundaries: a simulated process is a goroutine tree with its own provider, store, bucket wrapper and locker"],
        "assumptions": COMMON_ASSUMPTIONS + [
            "tampering happens only at quiescent points: lazy verification has by design no defence against modification between verification and use",
            "a key is exempt from the repair oracles (not from the no-wrong-content oracle) once one of its cached files was tampered with while its marker stayed valid",
        ],
        "probes_expected": {"quick": ["lock-contended", "digest-mismatch-returned", "proc-crash", "machine-crash", "rename-err", "short-write", "tamper-flip", "registry-wrong-content", "cancel", "lag"],
                            "thorough": ["lock-contended", "lock-timeout", "digest-mismatch-returned", "proc-crash", "machine-crash", "rename-err", "short-write", "tamper-flip", "registry-wrong-content", "cancel", "lag"]},
    },
    "C01": {
        "engine": "buildsim",
        "level": "exploration",
        "runs": {"quick": 1600, "thorough": 60000},
        "max_wall_s": {"quick": 0, "thorough": 1500},
        "shrink_s": {"quick": 60, "thorough": 300},
        "recheck_every": 25,
        "min_chunk": 8,
        "rule": ("one evaluation = one generated workspace (1-3 modules, 2-10 files, import DAG incl. public and well-known-type imports, "
                 "proto2/proto3/editions/unspecified syntax, module and --path/--exclude-path targeting, optionally a workspace-supplied WKT or one "
                 "planted undefined type) built once as a baseline (one worker, sorted enumeration) and then 3-6 more times under tape-chosen "
                 "perturbations: arrival order of file contents at the concurrent compile tasks (every bucket Get/Stat/Walk is a scheduling point), "
                 "walk permutation, module listing order, thread.Parallelize job start/end order, parallelism, and injected get/stat/walk/read errors "
                 "or cancellation; every image is checked for closure, uniqueness, dependency order, import flags, markers and module metadata "
                 "against the generator's model and descriptor-by-descriptor against protocompile run directly on the same sources; non-trivial = "
                 "the scheduler had a real choice or a fault fired; distinct = distinct (released-operation sequence, fired-fault multiset)"),
        "real": ["bufmodule ModuleSetBuilder / module read buckets / targeting", "bufimage.BuildImage incl. parserAccessorHandler and DFS ordering",
                 "protocompile (dependency; its worker pool is steered through the files it reads)", "bufprotocompile annotations", "datawkt", "thread.Parallelize"],
        "stubbed": ["disk: storagemem buckets behind the yielding / fault-injecting wrapper (walk permutation, read faults)"],
        "assumptions": COMMON_ASSUMPTIONS + [
            "only the schedule / enumeration-order / read-fault clauses are decided by simulation; the input-universal clauses (all import graphs, all targetings) are sampled as workload",
            "with parallelism below the number of compile tasks the order in which tasks obtain protocompile's internal semaphore is the Go runtime's choice (ambient executions); divergences found there replay statistically",
            "the reference compile uses the same protocompile source-info mode constant buf selects",
        ],
        "probes_expected": {"quick": ["arrival-order-distinct", "build-failed-under-fault", "planted-error-located", "walk-permuted-nontrivially", "get-err", "cancel", "built-through-the-command-line", "cli-v1-workspace", "planted-error-located-through-the-command-line", "cli-v1beta1-module-with-two-roots", "planted-error-format-json"],
                            "thorough": ["arrival-order-distinct", "build-failed-under-fault", "planted-error-located", "walk-permuted-nontrivially", "get-err", "cancel", "built-through-the-command-line", "cli-v1-workspace", "planted-error-located-through-the-command-line", "cli-v1beta1-module-with-two-roots", "planted-error-format-json"]},
    },
    "C02": {
        "engine": "buildsim",
        "level": "exploration",
        "runs": {"quick": 320, "thorough": 40000},
        "max_wall_s": {"quick": 0, "thorough": 1500},
        "shrink_s": {"quick": 60, "thorough": 300},
        "recheck_every": 25,
        "min_chunk": 8,
        "rule": ("one evaluation = one generated workspace whose outputs - deterministic image bytes, lint and breaking annotations rendered as text "
                 "and json, formatted files, ls-files list, dependency graph DOT, module digests - are computed once as a baseline and then 3-6 more "
                 "times under tape-chosen perturbations (file arrival order, thread.Parallelize job start/end order, walk permutation at every bucket, "
                 "module listing order, --path / rule id / category listing order, parallelism incl. ambient settings below the number of tasks); every output must be byte-identical to the "
                 "baseline; non-trivial = the scheduler had a real choice; distinct = distinct released-operation sequence"),
        "real": ["bufimage.BuildImage", "protoencoding wire marshaler", "bufcheck client + builtin lint/breaking rules (in-process check server)", "bufanalysis printers",
                 "bufformat.FormatModuleSet", "bufimage ls-files helpers", "bufmodule.ModuleSetToDAG / dag DOT", "bufmodule digests", "thread.Parallelize"],
        "stubbed": ["disk: storagemem buckets behind the yielding wrapper with walk permutation"],
        "assumptions": COMMON_ASSUMPTIONS + [
            "outputs are assembled at API level the way bufctl.Controller does, because that is where a bucket can be substituted; the CLI's flag parsing is not exercised",
            "listing orders permuted: modules, --path / --exclude-path values, lint use / except ids and categories, breaking categories; plugin listing order belongs to C17",
        ],
        "probes_expected": {"quick": ["arrival-order-distinct", "walk-permuted-nontrivially", "cli-image-input-with-paths", "cli-compressed-image-run-after-run", "filter-head-of-extension-chain", "cli-two-broken-modules"], "thorough": ["arrival-order-distinct", "walk-permuted-nontrivially", "cli-image-input-with-paths", "cli-compressed-image-run-after-run", "filter-head-of-extension-chain", "cli-two-broken-modules"]},
    },
    "C08": {
        "engine": "digestsim",
        "level": "exploration",
        "runs": {"quick": 3000, "thorough": 150000},
        "max_wall_s": {"quick": 0, "thorough": 1500},
        "shrink_s": {"quick": 45, "thorough": 300},
        "recheck_every": 40,
        "min_chunk": 8,
        "rule": ("one evaluation = one generated set of 1-3 modules (paths with spaces, unicode and dots, empty files, LICENSE and every doc-file "
                 "variant, junk non-module files, inter-module imports) whose last module is digested under 3-6 tape-chosen configurations "
                 "(backend memory / disk / tar round trip / zip round trip, walk permutation at every bucket, module name present or absent, "
                 "targeted or not, module listing order, injected get/read/walk errors) and compared with an independent implementation of the "
                 "published b5 construction (in some executions after the dependency graph, the direct dependencies or the file listing were "
                 "asked for first; readers may serve short reads); six goroutines asking the same module objects at once; all modules as one "
                 "v2 workspace loaded through bufworkspace (LICENSE / doc inheritance from the root); then through the module cache (directory "
                 "and tar layouts) under a key pinned to the reference b5 and b4 digests; then after 2-4 stored-content mutations (flip, truncate, append, delete, rename, add) of module and non-module files "
                 "and a change inside a dependency; non-trivial = every run (each has >= 3 configurations); distinct = distinct trace hash"),
        "real": ["bufmodule digest code (b5) incl. module-file matcher and doc-file precedence", "bufmodule ModuleSetBuilder / ModuleDeps", "bufcas manifest / file set / digest",
                 "storagemem", "storageos", "storagearchive", "bufmodulestore (as a backend)", "bufmodule.ModuleData digest verification",
                 "bufworkspace + buftarget (v2 workspace on one bucket)"],
        "stubbed": ["disk interposition: yielding wrapper with walk permutation and injected get/read/walk errors"],
        "assumptions": COMMON_ASSUMPTIONS + [
            "the reference is written from the published construction with crypto/sha3 from the Go standard library",
            "Stat errors are not injected: buf probes for doc files with Stat and, by API design, cannot tell a failed Stat from an absent file",
            "Digest() is not called from concurrent SCHEDULED tasks (parking inside a sync.OnceValues would block the others non-durably); concurrent callers run freely in a phase of their own",
            "b5 and the legacy b4 digest both have an independent reference; input-universal clauses are sampled as workload, the deciding dimensions are backend, enumeration order, read faults and stored corruption",
        ],
        "probes_expected": {"quick": ["walk-permuted-nontrivially", "digest-failed-under-fault", "mutation-changed-digest", "mutation-left-digest", "cache-backend-verified", "dependency-change-propagated", "remote-leaf-importing-vendored-wkt", "workspace-through-the-command-line"],
                            "thorough": ["walk-permuted-nontrivially", "digest-failed-under-fault", "mutation-changed-digest", "mutation-left-digest", "cache-backend-verified", "dependency-change-propagated", "remote-leaf-importing-vendored-wkt", "workspace-through-the-command-line"]},
    },
    "C17": {
        "engine": "gensim",
        "level": "exploration",
        "runs": {"quick": 3000, "thorough": 100000},
        "max_wall_s": {"quick": 0, "thorough": 1500},
        "shrink_s": {"quick": 45, "thorough": 300},
        "recheck_every": 25,
        "min_chunk": 8,
        "rule": ("one evaluation = one bufgen.Generator.Generate run end to end: a generated image (shared imports between directories, WKT imports, "
                 "module and path targeting), a tape-drawn buf.gen.yaml (v1 or v2; 1-4 local plugins; strategy directory/all; include_imports; "
                 "include_wkt; shared or distinct out directories) and in-process simulated plugins that record every request and answer from a "
                 "script (one file per file to generate; an insertion point into a file the previous plugin produced, or into a file nobody "
                 "produced; a duplicate of another plugin's path; a name that escapes the out directory; an error); start and completion of every "
                 "plugin invocation and every write of the flush are scheduling points released in a seeded order; non-trivial = the scheduler had "
                 "a real choice; distinct = distinct released-operation sequence"),
        "real": ["bufgen.Generator (execPlugins, generateCode)", "bufimage.ImageByDir / ImagesToCodeGeneratorRequests", "bufprotopluginexec.Generator (handler seam)",
                 "bufprotoplugin.Generator and ResponseWriter, ValidatePluginResponses", "bufprotopluginos.ResponseWriter", "bufconfig buf.gen.yaml reader",
                 "storageos (real output directories)", "thread.Parallelize"],
        "stubbed": ["plugins: in-process protoplugin.Handler values in place of exec'd binaries (tag-guarded seam in bufprotopluginexec.NewHandler)", "disk interposition for the flush"],
        "assumptions": COMMON_ASSUMPTIONS + [
            "only the multi-party / concurrent clauses are decided by simulation; request construction is pure and rides along as workload oracles",
            "WHICH files a per-plugin type filter leaves to the filtered plugin is not checked (that is the image filter's subject, C12); exclude_types is not exercised",
            "simulated plugins never produce the same name from two requests of ONE plugin: buf merges those in completion order (first wins, with a warning), which the property does not speak about",
            "whether a file keeps its final newline after an insertion point is applied is not checked",
        ],
        "probes_expected": {"quick": ["plugin-completion-reordered", "insertion-point-applied", "generate-failed-as-expected", "plugin-with-type-filter", "generated-from-an-image-file"],
                            "thorough": ["plugin-completion-reordered", "insertion-point-applied", "generate-failed-as-expected", "plugin-with-type-filter", "generated-from-an-image-file"]},
    },
}

# wave 10 additions (kept apart so that the texts above stay as they were reviewed)
PROPS["C15"]["rule"] += (" Part A ends with two executions under a REAL operating-system failure below every hook: one destination file linked to /dev/full (ENOSPC),"
                         " and the real disk bucket UNWRAPPED with RLIMIT_FSIZE below the size of one file (EFBIG in mid-file, also on an atomic put's temp file):"
                         " the operation must fail, atomically put objects hold old or complete content, no temp file remains. One case in forty copies 1025-2049 extra objects.")
PROPS["C09"]["rule"] += (" Three runs in five name slow tasks (the workers a cancelled process left behind, one slow process, or its workers), which the scheduler holds back"
                         " except at one step in 8/32/128 while anything else is enabled; cancellation prefers moments at which a parallel job is about to act.")
PROPS["C17"]["rule"] += (" One plugin of a v2 template is sometimes restricted to one message type (types:): it may be asked for fewer files, never for others or twice; the other plugins for no fewer.")
PROPS["C02"]["rule"] += (" Further compared outputs: the command-line image given back to buf build as an image input with --path flags in the execution's listing order;"
                         " a compressed image written twice with the simulated clock advanced by seconds to days in between; --type lists naming the head of a chain of extensions;"
                         " breaking annotations for editions string fields whose per-field feature changed.")
PROPS["C01"]["rule"] += (" On-disk workspaces for the command-line builds are sometimes v1 workspaces (buf.work.yaml / buf.work, buf.yaml / buf.mod) and the commands sometimes run with"
                         " BUF_BETA_COPY_FILES_TO_MEMORY; workspaces with a planted error are also built through the real command with the input given as a directory or a link to it.")
PROPS["C08"]["rule"] += (" Directory names come in two Unicode normal forms; a composite scenario digests a local module that imports a remote leaf module importing a well-known type vendored by a third module.")
PROPS["C14"]["rule"] += (" A third of the link-following disk roots have a top-level directory that is a link to a directory elsewhere; filter views include extension matchers with empty, multi-dot and dot-less arguments.")
PROPS["C13"]["rule"] += (" A spelling of a prefix-mapped view's own root accepted by get/stat/put/delete counts as reaching outside the view; a walk whose prefix names a link to an outside directory must visit nothing.")

# wave 11 additions
PROPS["C08"]["rule"] += (" The v2 workspace of a run is also given to the real command, buf dep graph <input> --format json, as a directory, as tar / tar.gz / zip with #subdir or #strip_components, or as one of its .proto files; every printed digest is compared with the reference.")
PROPS["C01"]["rule"] += (" Planted-error builds through the command use every diagnostic format (text, json, msvs, junit, github-actions); modules of v1 on-disk workspaces are sometimes v1beta1 modules with two roots and excludes below each.")
PROPS["C02"]["rule"] += (" One run in six lints or builds a workspace in which TWO modules fail to compile, six times with 1-16 workers: the same text every time.")
PROPS["C13"]["rule"] += (" The command-line step also gives hostile --path values to an archive input with #subdir, and sometimes a git input (created offline in the run directory) whose tree links to a file and a directory outside the repository: nothing from behind the links may be listed.")
PROPS["C15"]["rule"] += (" Two more write paths: the cache of well-known types (a failed population followed by one more invocation, which must fail or leave exactly the embedded files) and bufmigrate.Migrator.Migrate (after a failed run on disk the new buf.yaml is absent, old or complete).")
PROPS["C17"]["rule"] += (" Custom options are sometimes declared inside a message; the command-line path sometimes builds an image file (binpb, binpb.gz, json, txtpb) first and generates from it.")
PROPS["C15"]["real"] += ["bufwktstore.GetBucket", "bufmigrate.Migrator.Migrate (incl. the bufcheck rule catalogue it consults)"]
PROPS["C08"]["real"] += ["the buf dep graph command run in-process (controller, buffetch for directory / archive / proto-file inputs, bufworkspace)"]
PROPS["C13"]["real"] += ["buf build / buf ls-files run in-process on directory, archive and git inputs (the git binary of the machine is executed for git inputs; skipped where there is none)"]

# wave 12 additions
PROPS["C09"]["rule"] += (" A third of the directory-layout runs construct some of their processes through the command line's own wiring: bufcli.NewModuleDataProvider / NewCommitProvider on a"
                         " container carrying that process's environment (one cache directory reached through BUF_CACHE_DIR, XDG_CACHE_HOME or HOME; HOME and the data / config directories differ"
                         " from process to process). Registry and locker enter through guarded hooks; the lock model is keyed by the lock DIRECTORY the wiring chose, so processes exclude each"
                         " other exactly when buf gives them the same one. Their disk buckets are unwrapped: the hooks below storageos are their scheduling and fault points. Half of the injected"
                         " close failures also lose the second half of what was written to that file (a failed write-back).")
PROPS["C09"]["real"] += ["bufcli cache wiring (cache.go: directories, lock directory, disk providers) for the wired processes"]
PROPS["C14"]["rule"] += (" One walk in three over a writable disk view is an interleaved walk: its callback is a scheduling point at which another client deletes objects and puts objects atomically"
                         " (tape-drawn); sometimes the callback reads the object it was handed and returns that read's error. A walk that reports success has visited every object that was"
                         " present and untouched from before it started until after it ended, each path once, nothing that never existed; a walk whose callback returned an error reports an error.")
PROPS["C13"]["rule"] += (" Third engine (faultsim, containment oracle only): after every execution of a write path - healthy or under an injected put / write / close / rename failure - the"
                         " directory that holds the bucket's root (and nothing else) is still there: cleaning up after a failed write stops at the root.")
PROPS["C13"]["real"] += ["every write path of the C15 engine (storage.Copy*, PutPath, archives, module and commit stores, configuration writers, plugin response writer, buf export, migrate) under injected write failures (third engine, containment oracle only)"]
PROPS["C08"]["rule"] += (" The v2 workspace is loaded once more with ONE failing Get or Stat (EIO; tape-chosen among the operations of the healthy load; Stat probes of documentation file names"
                         " excepted): the load or a digest fails, or every digest equals the reference.")
PROPS["C02"]["rule"] += (" One run in five is a fault run: in its perturbed executions one or two reads fail once (get / read / stat / walk) or the context is cancelled; such a build fails, or writes"
                         " exactly the baseline's bytes (fault-transparency).")
PROPS["C15"]["rule"] += (" Half of the injected close failures on disk also lose the second half of what was written to that file.")
for _p, _names in (("C09", ["wired-process"]), ("C14", ["walk-interleaved-with-writes"]), ("C13", ["root-parent-survived-write-path"]), ("C08", ["workspace-fault-reported"])):
    for _tier in ("quick", "thorough"):
        PROPS[_p]["probes_expected"][_tier] = PROPS[_p]["probes_expected"][_tier] + _names
PROPS["C15"]["rule"] += (" A third of the cases also enumerate SOURCE positions (opening a source object fails; its k-th chunk fails while the destination object is half written); part B has a"
                         " source-read variant of the atomic copy (the only failure is one read error on the source; violations there carry the signature namespace source-read).")

# wave 13 additions
PROPS["C02"]["rule"] += (" One run in three adds a fixed-shape output: a file that takes a type from each of 3-8 files it reaches only through the public imports of a hub, restricted to its message by a type filter; its dependency list is compared, four times per execution.")
PROPS["C09"]["rule"] += (" One universe in 25 has a module of 257-420 files (more than any chunk or worker pool of a copy holds at once); crash states are sampled one in 29 there.")
PROPS["C15"]["rule"] += (" One more write path: two plugin responses into one directory, the second inserting into the first one's file, with an expectation computed by the harness and boundary shapes (a 70 000 byte line below the insertion point / in the inserted content): the path may refuse the input with an error, it may not report success with less than everything.")
PROPS["C08"]["rule"] += (" The remote module with pinned (sometimes legacy-digest) dependency keys is sometimes digested with a commit provider that knows no commit: the digest fails or equals the reference.")
