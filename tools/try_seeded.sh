#!/bin/bash
# usage: tools/try_seeded.sh <patch.diff> <tier> <prop> [prop...]
# Like run_seeded.sh, but in a scratch worktree of /repo's HEAD (removed afterwards): /repo stays untouched.
patch="$1"; tier="$2"; shift 2
R=/tmp/try-repo-$$
git -C /repo worktree add -q --detach $R HEAD || exit 9
export VERIF_REPO=$R VERIF_REPLAYS_DIR=/tmp/try-replays-$$ VERIF_EVIDENCE_DIR=/tmp/try-evidence-$$
if ! git -C $R apply --check "$patch" 2>/dev/null; then echo "PATCH DOES NOT APPLY: $patch"; else
git -C $R apply "$patch"
for p in "$@"; do
  out=$(/verif/bin/check $p $tier 2>&1); rc=$?
  echo "  $p $tier exit=$rc"
  echo "$out" | grep "^  $p|" | cut -c1-330 | head -6
  if [ $rc -eq 2 ]; then echo "$out" | tail -5 | cut -c1-300; fi
done; fi
git -C /repo worktree remove --force $R; git -C /repo worktree prune
[ -n "$KEEP_REPLAYS" ] || rm -rf $VERIF_REPLAYS_DIR; rm -rf $VERIF_EVIDENCE_DIR
