#!/bin/bash
# usage: tools/wave_eval.sh <P> <wave> <pkg1> <rx1> <pkg2> <rx2> [tier]
# Confirms both changes of one author (tools/confirm_seeded.sh) and runs the property's check against each
# in the author's scratch worktree (moved to /repo's HEAD first), keeping replay and evidence files apart.
P=$1; W=$2; tier=${7:-quick}
wt=/tmp/wt-$P-$W
git -C $wt checkout -q --detach main 2>/dev/null; git -C $wt checkout -q -- . ; git -C $wt clean -qfd
/verif/tools/confirm_seeded.sh $P-$W/m1 "$3" "$4"
/verif/tools/confirm_seeded.sh $P-$W/m2 "$5" "$6"
export VERIF_REPO=$wt VERIF_REPLAYS_DIR=/tmp/w-replays-$P-$W VERIF_EVIDENCE_DIR=/tmp/w-evidence-$P-$W
for m in m1 m2; do
  if ! git -C $wt apply --check /tmp/out-$P-$W/$m/patch.diff 2>/dev/null; then echo "$P-$W-$m DOES-NOT-APPLY on HEAD"; continue; fi
  git -C $wt apply /tmp/out-$P-$W/$m/patch.diff
  out=$(/verif/bin/check $P $tier 2>&1); rc=$?
  git -C $wt checkout -q -- .
  echo "$P-$W-$m $tier exit=$rc"
  echo "$out" | grep "^  $P|" | cut -c1-400 | head -6
  [ $rc -eq 2 ] && echo "$out" | tail -5 | cut -c1-300
done
