#!/bin/bash
# usage: tools/regress_seeded.sh [tier] [id-glob]
# Applies every stored seeded change in turn to /repo's working tree, runs the check of the property it
# breaks, and restores the tree. Prints one line per change; exit 1 if any change is no longer detected.
tier="${1:-quick}"; glob="${2:-*}"
miss=0
for d in /verif/seeded/$glob/; do
  id=$(basename $d); prop=$(jq -r .breaks_property $d/meta.json)
  if ! git -C /repo apply --check $d/patch.diff 2>/dev/null; then echo "$id DOES-NOT-APPLY"; miss=1; continue; fi
  git -C /repo apply $d/patch.diff
  out=$(/verif/bin/check $prop $tier 2>&1); rc=$?
  git -C /repo checkout -- .
  sigs=$(echo "$out" | grep "^  $prop|" | cut -d: -f1 | sed 's/^  //' | head -3 | tr '\n' ' ')
  echo "$id $prop exit=$rc $sigs"
  [ $rc -eq 1 ] || miss=1
done
git -C /repo status --short | head -3
exit $miss
