#!/bin/bash
# usage: tools/regress_seeded.sh [tier] [id-glob]
# Re-runs, for every stored seeded change, the check of the property it breaks, and prints one line per
# change; exit 1 if any change is no longer detected. The changes are applied in a scratch worktree of
# /repo's HEAD (removed afterwards; /repo itself stays untouched, so other work can go on) and the runs keep
# their replay and evidence files apart from /verif's.
tier="${1:-quick}"; glob="${2:-*}"
R=/tmp/regress-repo-$$
git -C /repo worktree add -q --detach $R HEAD || exit 9
export VERIF_REPO=$R VERIF_REPLAYS_DIR=/tmp/regress-replays-$$ VERIF_EVIDENCE_DIR=/tmp/regress-evidence-$$
miss=0
for d in /verif/seeded/$glob/; do
  id=$(basename $d); prop=$(jq -r .breaks_property $d/meta.json)
  if [ "$(jq -r '.retired // empty' $d/meta.json)" != "" ]; then echo "$id RETIRED (see meta.json)"; continue; fi
  if [ "$(jq -r '.not_detected // empty' $d/meta.json)" = "true" ]; then echo "$id KNOWN-MISS (see meta.json)"; continue; fi
  if ! git -C $R apply --check $d/patch.diff 2>/dev/null; then echo "$id DOES-NOT-APPLY"; miss=1; continue; fi
  git -C $R apply $d/patch.diff
  out=$(/verif/bin/check $prop $tier 2>&1); rc=$?
  git -C $R checkout -- .
  sigs=$(echo "$out" | grep "^  $prop|" | cut -d: -f1 | sed 's/^  //' | head -3 | tr '\n' ' ')
  echo "$id $prop exit=$rc $sigs"
  [ $rc -eq 1 ] || miss=1
done
git -C /repo worktree remove --force $R; git -C /repo worktree prune
rm -rf $VERIF_REPLAYS_DIR $VERIF_EVIDENCE_DIR
exit $miss
