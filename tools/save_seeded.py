#!/usr/bin/env python3
# usage: tools/save_seeded.py <P>-<wave> <mN> <prop> <pkg> <regex> <what> <needs> <checks_run> <detected_by> <status>
import sys, os, json, shutil
idw, m, prop, pkg, rx, what, needs, checks, det, status = sys.argv[1:11]
src = f"/tmp/out-{idw}/{m}"
dst = f"/verif/seeded/{idw}-{m}"
os.makedirs(dst, exist_ok=True)
shutil.copy(f"{src}/patch.diff", f"{dst}/patch.diff")
shutil.copy(f"{src}/demo_test.go", f"{dst}/demo_test.go.txt")
shutil.copy(f"{src}/NOTES.md", f"{dst}/NOTES.md")
wave = idw.split("-")[1]
meta = {
 "id": f"{idw}-{m}", "breaks_property": prop, "what": what, "needs_to_manifest": needs,
 "written_by": f"independent sub-agent given only the property text, a focus hint derived from that text, and a scratch worktree (wave {wave})",
 "confirmed": {"how": "tools/confirm_seeded.sh in a fresh scratch worktree of /repo HEAD (removed afterwards), go1.24.2 toolchain",
  "patch_applies": True, "builds": True,
  "demo": f"copy demo_test.go.txt as <{pkg}>/zz_seeded_demo_test.go; go test -run {rx} ./{pkg} : fails with the patch, passes without",
  "touched_package_tests": "pass"},
 "checks_run": checks, "detected_by": det, "status": status}
json.dump(meta, open(f"{dst}/meta.json", "w"), indent=1)
print("saved", dst)
