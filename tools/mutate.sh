#!/bin/bash
# usage: tools/mutate.sh <file-in-repo> <python-expr old> <python-expr new> <prop> [tier]
# applies a textual mutation to /repo (working tree only), runs the check, restores the tree.
set -u
f="$1"; old="$2"; new="$3"; prop="$4"; tier="${5:-quick}"
python3 - "$f" "$old" "$new" <<'PY'
import sys
p='/repo/'+sys.argv[1]
s=open(p).read()
old=sys.argv[2].encode().decode('unicode_escape'); new=sys.argv[3].encode().decode('unicode_escape')
if s.count(old)!=1:
    print("MUTATION DID NOT APPLY: count=%d"%s.count(old)); sys.exit(3)
open(p,'w').write(s.replace(old,new))
PY
rc=$?
if [ $rc -eq 0 ]; then
  (cd /repo && go build ./... >/dev/null 2>&1 || echo "MUTANT DOES NOT BUILD")
  /verif/bin/check "$prop" "$tier" 2>&1 | grep -v "^\s" | cut -c1-260 | head -${MUT_LINES:-12}
  echo "exit=${PIPESTATUS[0]}"
fi
git -C /repo checkout -- . 
