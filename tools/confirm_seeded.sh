#!/bin/bash
# usage: tools/confirm_seeded.sh <out-id/mN> <pkg-dir> <run-regex>
# Confirms a seeded change in a scratch worktree of /repo (removed afterwards):
# patch applies on HEAD, tree builds, demo FAILS with the patch and PASSES without, touched package tests pass.
id="$1"; pkg="$2"; rx="$3"
src=/tmp/out-$id
wt=/tmp/wt-confirm-$$
export PATH=/root/go/pkg/mod/golang.org/toolchain@v0.0.1-go1.24.2.linux-amd64/bin:$PATH GOFLAGS=-mod=mod GOPROXY=off GOSUMDB=off GOTOOLCHAIN=local
git -C /repo worktree add -q $wt HEAD || exit 9
cd $wt
res="id=$id"
cp $src/demo_test.go $pkg/zz_seeded_demo_test.go
if go test -count=1 -vet=off -run "$rx" ./$pkg >/tmp/confirm-clean.log 2>&1; then res="$res clean=pass"; else res="$res clean=FAIL"; fi
if git apply --check $src/patch.diff 2>/dev/null; then git apply $src/patch.diff; res="$res applies=yes"; else res="$res applies=NO"; fi
if go build ./... >/tmp/confirm-build.log 2>&1; then res="$res build=ok"; else res="$res build=FAIL"; fi
if go test -count=1 -vet=off -run "$rx" ./$pkg >/tmp/confirm-mut.log 2>&1; then res="$res mutant=pass(!)"; else res="$res mutant=fail"; fi
rm -f $pkg/zz_seeded_demo_test.go
touched=$(git diff --name-only | xargs -n1 dirname | sort -u | sed 's|^|./|' | tr '\n' ' ')
if go test -count=1 -vet=off $touched >/tmp/confirm-pkg.log 2>&1; then res="$res pkgtests=pass"; else res="$res pkgtests=FAIL($(grep -c '^--- FAIL' /tmp/confirm-pkg.log))"; fi
echo "$res touched=$touched"
cd /; git -C /repo worktree remove --force $wt
