#!/bin/bash
# usage: tools/run_seeded.sh <patch.diff> <tier> <prop> [prop...]
# applies the patch to /repo's working tree, runs the checks, restores the tree.
patch="$1"; tier="$2"; shift 2
if ! git -C /repo apply --check "$patch" 2>/dev/null; then echo "PATCH DOES NOT APPLY: $patch"; exit 3; fi
git -C /repo apply "$patch"
for p in "$@"; do
  out=$(/verif/bin/check $p $tier 2>&1); rc=$?
  sigs=$(echo "$out" | grep "^  $p|" | cut -d: -f1 | sed 's/^  //' | head -4 | tr '\n' ' ')
  echo "  $p $tier exit=$rc $(echo "$out" | grep -c '^VIOLATION') violation sig(s): $sigs"
  if [ $rc -eq 2 ]; then echo "$out" | grep -v "^\s*/\|^goroutine\|^$" | head -5 | cut -c1-300; fi
done
git -C /repo checkout -- .
git -C /repo status --short | head -3
