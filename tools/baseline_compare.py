#!/usr/bin/env python3
"""Runs the repository's baseline test command (hooks OFF) with -json and compares the
set of passing tests with BASELINE.json's stable_pass list. Exit 0 iff every stable_pass
test passed."""
import json, subprocess, sys, os
base = json.load(open('/root/.vp/BASELINE.json'))
stable = set(base['stable_pass'])
out = '/dev/shm/baseline-json.log'
env = dict(os.environ); env['GOFLAGS'] = '-mod=mod'
with open(out, 'w') as f:
    subprocess.run(['go', 'test', '-json', '-vet=off', '-count=1', '-timeout', '25m', './...'], cwd='/repo', stdout=f, stderr=subprocess.STDOUT, env=env)
passed = set(); failed = set()
for line in open(out):
    try:
        e = json.loads(line)
    except Exception:
        continue
    if e.get('Test') and e.get('Action') in ('pass', 'fail'):
        name = '%s::%s' % (e['Package'], e['Test'])
        (passed if e['Action'] == 'pass' else failed).add(name)
missing = sorted(t for t in stable if t not in passed)
print('stable_pass=%d passed=%d failed=%d stable tests not passing=%d' % (len(stable), len(passed), len(failed), len(missing)))
for t in missing[:40]:
    print('  NOT PASSING:', t, '(failed)' if t in failed else '(not run)')
sys.exit(1 if missing else 0)
